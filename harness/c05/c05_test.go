// C05: batch authorization equals brute-force authorization of every substitution, with exact callback
// behaviour under callback failure and context cancellation at every position.
package c05

import (
	"context"
	"encoding/json"
	"errors"
	"fmt"
	"maps"
	"sort"
	"testing"

	cedar "github.com/cedar-policy/cedar-go"
	"github.com/cedar-policy/cedar-go/types"
	"github.com/cedar-policy/cedar-go/x/exp/batch"
	"pgregory.net/rapid"

	"verif/conv"
	"verif/ev"
	"verif/gen"
	"verif/ir"
	"verif/ref"
)

func TestMain(m *testing.M) { ev.Main(m, "C05") }

const varType = "__cedar::variable"

func mkVar(name string) ir.Value { return ir.Ent(varType, name) }
func isVar(v ir.Value) bool      { return v.K == ir.KEntity && v.T == varType }

type VarList struct {
	Name   string     `json:"name"`
	Values []ir.Value `json:"values"`
}

type Case struct {
	IDs      []string     `json:"ids"`
	Policies []*ir.Policy `json:"policies"`
	Store    ir.Store     `json:"store"`
	Template ir.Request   `json:"template"` // unknown positions hold __cedar::variable entities
	Vars     []VarList    `json:"vars"`
	Fault    string       `json:"fault,omitempty"` // "" | "callback" | "cancel"
	FaultAt  int          `json:"fault_at,omitempty"`
	NilPart  string       `json:"nil_part,omitempty"`
	NilStore bool         `json:"nil_store,omitempty"` // pass a nil entity store (Store must be empty): documented as "no entities"
}

func subst(v ir.Value, comp map[string]ir.Value) ir.Value {
	if isVar(v) {
		if c, ok := comp[v.S]; ok {
			return c
		}
		return v
	}
	switch v.K {
	case ir.KSet:
		out := ir.Value{K: ir.KSet}
		for _, e := range v.Elems {
			x := subst(e, comp)
			if !out.Contains(x) {
				out.Elems = append(out.Elems, x)
			}
		}
		return out
	case ir.KRecord:
		out := ir.Value{K: ir.KRecord}
		for _, f := range v.Fields {
			out.Fields = append(out.Fields, ir.F(f.K, subst(f.V, comp)))
		}
		return out
	}
	return v
}

func containsVar(v ir.Value) bool {
	if isVar(v) {
		return true
	}
	for _, e := range v.Elems {
		if containsVar(e) {
			return true
		}
	}
	for _, f := range v.Fields {
		if containsVar(f.V) {
			return true
		}
	}
	return false
}

func usedVars(r ir.Request) map[string]bool {
	out := map[string]bool{}
	var walk func(v ir.Value)
	walk = func(v ir.Value) {
		if isVar(v) {
			out[v.S] = true
			return
		}
		for _, e := range v.Elems {
			walk(e)
		}
		for _, f := range v.Fields {
			walk(f.V)
		}
	}
	walk(r.Principal)
	walk(r.Action)
	walk(r.Resource)
	walk(r.Context)
	return out
}

type expect struct {
	req    ir.Request
	values map[string]ir.Value
}

// product enumerates the Cartesian product of the value lists (with multiplicity).
func product(c *Case) []expect {
	out := []expect{{values: map[string]ir.Value{}}}
	for _, vl := range c.Vars {
		var next []expect
		for _, e := range out {
			for _, v := range vl.Values {
				m := maps.Clone(e.values)
				m[vl.Name] = v
				next = append(next, expect{values: m})
			}
		}
		out = next
	}
	for i := range out {
		out[i].req = ir.Request{Principal: subst(c.Template.Principal, out[i].values), Action: subst(c.Template.Action, out[i].values),
			Resource: subst(c.Template.Resource, out[i].values), Context: subst(c.Template.Context, out[i].values)}
	}
	return out
}

func canonValues(m map[string]ir.Value) string {
	ks := make([]string, 0, len(m))
	for k := range m {
		ks = append(ks, k)
	}
	sort.Strings(ks)
	s := ""
	for _, k := range ks {
		s += k + "=" + canonValue(m[k]) + ";"
	}
	return s
}

// canonValue: order-independent text of a value (sets sorted).
func canonValue(v ir.Value) string {
	switch v.K {
	case ir.KSet:
		var ps []string
		for _, e := range v.Distinct() {
			ps = append(ps, canonValue(e))
		}
		sort.Strings(ps)
		return fmt.Sprint(ps)
	case ir.KRecord:
		var ps []string
		for _, k := range v.SortedKeys() {
			f, _ := v.Get(k)
			ps = append(ps, fmt.Sprintf("%q:%s", k, canonValue(f)))
		}
		return "{" + fmt.Sprint(ps) + "}"
	}
	return ir.JSON(v)
}

func canonReq(r ir.Request) string {
	return canonValue(r.Principal) + "|" + canonValue(r.Action) + "|" + canonValue(r.Resource) + "|" + canonValue(r.Context)
}

var errInjected = errors.New("injected callback failure")

type outcome struct {
	sub, msg    string
	calls       int
	differ      bool // some policy's outcome differs across the product
	productSize int
}

func check(c *Case) (res outcome) {
	defer func() {
		if r := recover(); r != nil {
			res.sub, res.msg = "panic", fmt.Sprint(r)
		}
	}()
	ps := cedar.NewPolicySet()
	for i, p := range c.Policies {
		ps.Add(cedar.PolicyID(c.IDs[i]), conv.ToPolicy(p))
	}
	store := conv.ToEntityMap(c.Store)
	req := batch.Request{Principal: conv.ToValue(c.Template.Principal), Action: conv.ToValue(c.Template.Action), Resource: conv.ToValue(c.Template.Resource),
		Context: conv.ToValue(c.Template.Context), Variables: batch.Variables{}}
	switch c.NilPart {
	case "principal":
		req.Principal = nil
	case "action":
		req.Action = nil
	case "resource":
		req.Resource = nil
	case "context":
		req.Context = nil
	}
	for _, vl := range c.Vars {
		vals := make([]types.Value, len(vl.Values))
		for i, v := range vl.Values {
			vals[i] = conv.ToValue(v)
		}
		req.Variables[types.String(vl.Name)] = vals
	}
	type got struct {
		req     types.Request
		values  batch.Values
		dec     types.Decision
		reasons []string
	}
	var gots []got
	ctx, cancel := context.WithCancel(context.Background())
	defer cancel()
	calls := 0
	callsAfterCancel := 0
	cancelled := false
	var getter types.EntityGetter = store
	if c.NilStore {
		getter = nil
	}
	err := batch.Authorize(ctx, ps, getter, req, func(r batch.Result) error {
		if cancelled {
			callsAfterCancel++
		}
		k := calls
		calls++
		g := got{req: r.Request, values: maps.Clone(r.Values), dec: r.Decision}
		for _, rs := range r.Diagnostic.Reasons {
			g.reasons = append(g.reasons, string(rs.PolicyID))
		}
		gots = append(gots, g)
		if c.Fault == "callback" && k == c.FaultAt {
			return fmt.Errorf("wrapped: %w", errInjected)
		}
		if c.Fault == "cancel" && k == c.FaultAt {
			cancel()
			cancelled = true
		}
		return nil
	})
	res.calls = calls

	// error paths that forbid any callback
	used := usedVars(c.Template)
	declared := map[string]bool{}
	emptyList := false
	for _, vl := range c.Vars {
		declared[vl.Name] = true
		if len(vl.Values) == 0 {
			emptyList = true
		}
	}
	unbound, unused := false, false
	for u := range used {
		if !declared[u] {
			unbound = true
		}
	}
	for d := range declared {
		if !used[d] {
			unused = true
		}
	}
	if unbound || unused || c.NilPart != "" {
		causes := 0
		for _, b := range []bool{unbound, unused, c.NilPart != "", emptyList} {
			if b {
				causes++
			}
		}
		if calls != 0 {
			res.sub, res.msg = "errorpath/callbacks", fmt.Sprintf("%d callbacks although the template is invalid (unbound=%v unused=%v nil=%q)", calls, unbound, unused, c.NilPart)
			return
		}
		if err == nil && causes == 1 {
			res.sub, res.msg = "errorpath/no-error", fmt.Sprintf("no error for an invalid template (unbound=%v unused=%v nil=%q)", unbound, unused, c.NilPart)
		}
		return
	}
	if emptyList {
		if calls != 0 || err != nil {
			res.sub, res.msg = "empty-list", fmt.Sprintf("a variable has an empty value list: want zero callbacks and nil error, got %d callbacks, err=%v", calls, err)
		}
		return
	}

	want := product(c)
	res.productSize = len(want)
	switch c.Fault {
	case "callback":
		if c.FaultAt < len(want) {
			if !errors.Is(err, errInjected) {
				res.sub, res.msg = "fault/callback-error-lost", fmt.Sprintf("callback failed at call %d, Authorize returned %v", c.FaultAt, err)
				return
			}
			if calls != c.FaultAt+1 {
				res.sub, res.msg = "fault/callback-continued", fmt.Sprintf("callback failed at call %d, but %d callbacks were made", c.FaultAt, calls)
				return
			}
		}
	case "cancel":
		if c.FaultAt < len(want) {
			if !errors.Is(err, context.Canceled) {
				res.sub, res.msg = "fault/cancel-error-lost", fmt.Sprintf("context cancelled during call %d, Authorize returned %v", c.FaultAt, err)
				return
			}
			if callsAfterCancel != 0 || calls != c.FaultAt+1 {
				res.sub, res.msg = "fault/cancel-continued", fmt.Sprintf("context cancelled during call %d, but %d callbacks were made (%d after the cancellation)", c.FaultAt, calls, callsAfterCancel)
				return
			}
		}
	default:
		if err != nil {
			res.sub, res.msg = "unexpected-error", fmt.Sprintf("Authorize returned %v for a valid template", err)
			return
		}
		if calls != len(want) {
			res.sub, res.msg = "callback-count", fmt.Sprintf("%d callbacks, the product has %d elements", calls, len(want))
			return
		}
	}

	// every delivered result must be an element of the product (with multiplicity), with the brute-force decision
	remaining := map[string]int{}
	byKey := map[string]expect{}
	for _, w := range want {
		k := canonReq(w.req) + "#" + canonValues(w.values)
		remaining[k]++
		byKey[k] = w
	}
	outcomes := map[string]map[ref.Outcome]bool{}
	for gi, g := range gots {
		greq, err := fromRequest(g.req)
		if err != nil {
			res.sub, res.msg = "result/request-unreadable", err.Error()
			return
		}
		gvals := map[string]ir.Value{}
		for k, v := range g.values {
			iv, err := conv.FromValue(v)
			if err != nil {
				res.sub, res.msg = "result/values-unreadable", err.Error()
				return
			}
			gvals[string(k)] = iv
		}
		k := canonReq(greq) + "#" + canonValues(gvals)
		if remaining[k] == 0 {
			res.sub, res.msg = "result/not-in-product", fmt.Sprintf("callback %d delivered request %s with values %s, which is not a (remaining) element of the product", gi, canonReq(greq), canonValues(gvals))
			return
		}
		remaining[k]--
		w := byKey[k]
		// substitution consistency: request == template[values]
		if canonReq(w.req) != canonReq(greq) {
			res.sub, res.msg = "result/request-mismatch", "request is not the template under the reported values"
			return
		}
		// brute force through the ordinary authorizer
		dec, diag := cedar.Authorize(ps, store, conv.ToRequest(w.req))
		var wantReasons []string
		for _, rs := range diag.Reasons {
			wantReasons = append(wantReasons, string(rs.PolicyID))
		}
		// and through the reference (ties the brute force to the specification)
		rd := ref.Authorize(c.IDs, c.Policies, ref.NewEnv(c.Store, w.req))
		if rd.Allow != (dec == cedar.Allow) || !sameSet(rd.Reasons, wantReasons) {
			res.sub, res.msg = "reference", fmt.Sprintf("cedar.Authorize and the reference disagree on %s", canonReq(w.req))
			return
		}
		if g.dec != dec {
			res.sub, res.msg = "result/decision", fmt.Sprintf("request %s values %s: batch decision %v, ordinary authorizer %v", canonReq(greq), canonValues(gvals), g.dec, dec)
			return
		}
		if !sameSet(g.reasons, wantReasons) {
			res.sub, res.msg = "result/reasons", fmt.Sprintf("request %s values %s: batch reasons %v, ordinary authorizer %v", canonReq(greq), canonValues(gvals), g.reasons, wantReasons)
			return
		}
		for i, p := range c.Policies {
			o, _ := ref.PolicyOutcome(p, ref.NewEnv(c.Store, w.req))
			if outcomes[c.IDs[i]] == nil {
				outcomes[c.IDs[i]] = map[ref.Outcome]bool{}
			}
			outcomes[c.IDs[i]][o] = true
		}
	}
	if c.Fault == "" {
		for k, n := range remaining {
			if n != 0 {
				res.sub, res.msg = "result/missing", fmt.Sprintf("product element %s was never delivered", k)
				return
			}
		}
	}
	for _, m := range outcomes {
		if len(m) > 1 {
			res.differ = true
		}
	}
	return
}

func fromRequest(r types.Request) (ir.Request, error) {
	ctx, err := conv.FromValue(r.Context)
	if err != nil {
		return ir.Request{}, err
	}
	return ir.Request{Principal: conv.FromEntityUID(r.Principal), Action: conv.FromEntityUID(r.Action), Resource: conv.FromEntityUID(r.Resource), Context: ctx}, nil
}

func sameSet(a, b []string) bool {
	x := map[string]bool{}
	y := map[string]bool{}
	for _, s := range a {
		x[s] = true
	}
	for _, s := range b {
		y[s] = true
	}
	if len(x) != len(y) {
		return false
	}
	for s := range x {
		if !y[s] {
			return false
		}
	}
	return true
}

// ---------------------------------------------------------------------------------------------

func shapeLabels(c *Case) []string {
	var out []string
	count := map[string]int{}
	inSet, nested := false, false
	parts := map[string]map[string]bool{}
	var walk func(v ir.Value, part string, depth int, underSet bool)
	walk = func(v ir.Value, part string, depth int, underSet bool) {
		if isVar(v) {
			count[v.S]++
			if parts[v.S] == nil {
				parts[v.S] = map[string]bool{}
			}
			parts[v.S][part] = true
			if underSet {
				inSet = true
			}
			if depth > 1 {
				nested = true
			}
			return
		}
		for _, e := range v.Elems {
			walk(e, part, depth+1, true)
		}
		for _, f := range v.Fields {
			walk(f.V, part, depth+1, underSet)
		}
	}
	walk(c.Template.Principal, "P", 0, false)
	walk(c.Template.Action, "A", 0, false)
	walk(c.Template.Resource, "R", 0, false)
	walk(c.Template.Context, "C", 0, false)
	for name, n := range count {
		if n >= 2 {
			out = append(out, "variable-used-twice")
		}
		if len(parts[name]) >= 2 {
			out = append(out, "same-variable-in-two-request-parts")
		}
	}
	if inSet {
		out = append(out, "variable-nested-in-set")
	}
	if nested {
		out = append(out, "variable-nested-deeper")
	}
	if len(c.Vars) >= 2 {
		out = append(out, "several-variables")
	}
	if c.Fault != "" {
		out = append(out, "fault:"+c.Fault)
	}
	return out
}

func run(c *Case, class string, fail func(sub, msg string)) bool {
	r := check(c)
	multi := false
	for _, vl := range c.Vars {
		if len(vl.Values) >= 2 {
			multi = true
		}
	}
	nt := multi && (r.differ || c.Fault != "")
	labels := append(shapeLabels(c), class)
	if r.differ {
		labels = append(labels, "outcome-differs-across-product")
	}
	ev.R.Case(ir.Hash(c), nt, labels...)
	ev.R.Count(int64(r.calls))
	if nt && ev.R.WantSample(class+c.Fault) {
		ev.R.Sample(class+c.Fault, map[string]any{"template": c.Template, "vars": c.Vars, "policies": len(c.Policies), "fault": c.Fault, "fault_at": c.FaultAt, "product": r.productSize})
	}
	if r.sub != "" {
		ev.R.Violation(r.sub, c, r.msg)
		fail(r.sub, r.msg)
		return false
	}
	return true
}

func altValues(rt *rapid.T, base ir.Value, w *gen.World, label string) []ir.Value {
	n := rapid.IntRange(0, 3).Draw(rt, label+"n")
	if n == 0 && rapid.IntRange(0, 3).Draw(rt, label+"allowempty") > 0 {
		n = 1
	}
	var out []ir.Value
	for i := 0; i < n; i++ {
		switch rapid.IntRange(0, 3).Draw(rt, label+"src") {
		case 0, 1:
			out = append(out, base)
		case 2:
			if base.K == ir.KEntity {
				if len(w.Store) > 0 {
					out = append(out, w.Store[rapid.IntRange(0, len(w.Store)-1).Draw(rt, label+"si")].UID)
				} else {
					out = append(out, gen.EntityVal(rt))
				}
			} else {
				out = append(out, gen.ValueOfKind(rt, base.K, 1, gen.DefaultValOpts))
			}
		default:
			if base.K == ir.KEntity {
				out = append(out, ir.Ent(base.T, gen.Pick(rt, gen.EntityIDs, label+"id")))
			} else {
				out = append(out, gen.Value(rt, 1, gen.DefaultValOpts))
			}
		}
	}
	return out
}

func genCase(rt *rapid.T) *Case {
	o := gen.DefaultExprOpts
	o.BadCtorPct = 4
	o.BadFuncPct = 1
	w := gen.GenWorld(rt, 4, o.Val)
	if len(w.Req.Context.Fields) < 2 || rapid.IntRange(0, 2).Draw(rt, "morectx") == 0 {
		w.Req.Context = ir.Rec(ir.F("a", ir.Long(int64(rapid.IntRange(0, 2).Draw(rt, "ca")))), ir.F("k", w.Req.Principal), ir.F("x", ir.Rec(ir.F("a", ir.Long(1)), ir.F("b", w.Req.Resource))), ir.F("b", ir.Set(ir.Long(1), ir.Long(2))),
			ir.F("g", ir.Set(w.Req.Resource, w.Req.Principal)))
	}
	c := &Case{Store: w.Store, Template: w.Req}
	np := rapid.IntRange(1, 6).Draw(rt, "npol")
	ids := rapid.Permutation([]string{"p0", "p1", "p2", "p3", "p4", "p5", "", "é"}).Draw(rt, "ids")
	po := gen.PolicyOpts{Expr: o, MaxConds: 2, Depth: 3}
	for i := 0; i < np; i++ {
		p := gen.GenPolicy(rt, &w, po)
		if rapid.IntRange(0, 3).Draw(rt, "whole") == 0 {
			ctxk := ir.Access(ir.Var("context"), gen.Pick(rt, gen.KeysSmall, "ck"))
			bad := ir.Bin(ir.OpAdd, ir.Lit(ir.Long(1)), ir.Lit(ir.Str("a")))
			extra := rapid.SampledFrom([]*ir.Expr{
				ir.Bin(ir.OpEq, ir.Var("context"), ir.Lit(w.Req.Context)),
				ir.Bin(ir.OpContains, ir.SetE(ctxk, ir.Lit(ir.Long(1))), ir.Lit(ir.Long(1))),
				ir.Has(ir.Access(ir.Var("context"), "x"), "a"),
				ir.Un(ir.OpNot, ir.IsIn(ir.Var("principal"), gen.Pick(rt, gen.EntityTypes, "ty"), bad)),
				ir.Bin(ir.OpOr, ir.Bin(ir.OpAnd, ir.Lit(ir.Bool(false)), bad), ir.Bin(ir.OpEq, ir.Var("principal"), ir.Access(ir.Var("context"), "k"))),
				ir.Bin(ir.OpEq, ir.Var("principal"), ir.Var("resource")),
				ir.Bin(ir.OpEq, ir.Access(ir.Access(ir.Var("context"), "x"), "b"), ir.Var("resource")),
				// membership tests against a set *value* of the context (which may hold a variable)
				ir.IsIn(ir.Var("principal"), w.Req.Principal.T, ir.Access(ir.Var("context"), "g")),
				ir.Un(ir.OpNot, ir.IsIn(ir.Var("resource"), w.Req.Resource.T, ir.Access(ir.Var("context"), "g"))),
				ir.Bin(ir.OpIn, ir.Var("principal"), ir.Access(ir.Var("context"), "g")),
				ir.Bin(ir.OpContains, ir.Access(ir.Var("context"), "g"), ir.Var("resource")),
			}).Draw(rt, "extra")
			p.Conds = append(p.Conds, ir.Cond{When: rapid.Bool().Draw(rt, "ew"), Body: extra})
		}
		c.Policies = append(c.Policies, p)
		c.IDs = append(c.IDs, ids[i])
	}
	// choose 0..3 variables and their positions
	nv := rapid.IntRange(0, 3).Draw(rt, "nvars")
	names := []string{"v0", "v1", "v2"}[:nv]
	place := func(name string) (ir.Value, bool) {
		// returns the base value of the position chosen for the variable
		switch rapid.IntRange(0, 6).Draw(rt, name+"pos") {
		case 0:
			b := c.Template.Principal
			if !containsVar(b) {
				c.Template.Principal = mkVar(name)
				return b, true
			}
		case 1:
			b := c.Template.Resource
			if !containsVar(b) {
				c.Template.Resource = mkVar(name)
				return b, true
			}
		case 2:
			b := c.Template.Action
			if !containsVar(b) {
				c.Template.Action = mkVar(name)
				return b, true
			}
		}
		// a context position: top-level field, nested record field or set member
		fs := c.Template.Context.Fields
		if isVar(c.Template.Context) || len(fs) == 0 {
			return ir.Value{}, false
		}
		i := rapid.IntRange(0, len(fs)-1).Draw(rt, name+"fi")
		f := fs[i]
		switch {
		case isVar(f.V):
			return ir.Value{}, false
		case f.V.K == ir.KRecord && len(f.V.Fields) > 0 && rapid.Bool().Draw(rt, name+"nr"):
			j := rapid.IntRange(0, len(f.V.Fields)-1).Draw(rt, name+"fj")
			b := f.V.Fields[j].V
			if containsVar(b) {
				return ir.Value{}, false
			}
			nf := ir.Value{K: ir.KRecord, Fields: append([]ir.Field{}, f.V.Fields...)}
			nf.Fields[j] = ir.F(f.V.Fields[j].K, mkVar(name))
			c.Template.Context = replaceField(c.Template.Context, i, nf)
			return b, true
		case f.V.K == ir.KSet && len(f.V.Elems) > 0 && rapid.Bool().Draw(rt, name+"ns"):
			b := f.V.Elems[0]
			if containsVar(b) {
				return ir.Value{}, false
			}
			ns := ir.Value{K: ir.KSet, Elems: append([]ir.Value{mkVar(name)}, f.V.Elems[1:]...)}
			c.Template.Context = replaceField(c.Template.Context, i, ns)
			return b, true
		case containsVar(f.V):
			return ir.Value{}, false
		default:
			c.Template.Context = replaceField(c.Template.Context, i, mkVar(name))
			return f.V, true
		}
	}
	for _, name := range names {
		base, ok := place(name)
		if !ok {
			continue
		}
		vl := VarList{Name: name, Values: altValues(rt, base, &w, name)}
		// use the same variable a second / third time: in another context field of the same base kind, or a new field
		extra := rapid.IntRange(0, 2).Draw(rt, name+"again")
		for e := 0; e < extra && !isVar(c.Template.Context); e++ {
			c.Template.Context.Fields = append(append([]ir.Field{}, c.Template.Context.Fields...), ir.F(fmt.Sprintf("dup%s%d", name, e), mkVar(name)))
		}
		c.Vars = append(c.Vars, vl)
	}
	return c
}

func replaceField(rec ir.Value, i int, v ir.Value) ir.Value {
	out := ir.Value{K: ir.KRecord, Fields: append([]ir.Field{}, rec.Fields...)}
	out.Fields[i] = ir.F(rec.Fields[i].K, v)
	return out
}

func TestRandomTemplates(t *testing.T) {
	ev.SetChecks(ev.Scale(4000, 400000))
	ev.Check(t, func(rt *rapid.T) {
		c := genCase(rt)
		if !run(c, "random", func(string, string) {}) {
			rt.Fatalf("C05/random: batch authorization differs from brute force")
		}
	})
}

// TestFaultPositions: for generated templates, EVERY position k of the product is tried as the failing / cancelling call.
func TestFaultPositions(t *testing.T) {
	ev.SetChecks(ev.Scale(300, 20000))
	ev.Check(t, func(rt *rapid.T) {
		c := genCase(rt)
		n := len(product(c))
		if len(c.Vars) == 0 || n == 0 || n > 40 {
			c.Vars = nil
			c.Template = ir.Request{Principal: mkVar("p"), Action: ir.Ent("Action", "view"), Resource: mkVar("r"), Context: ir.Rec(ir.F("who", mkVar("p")))}
			c.Vars = []VarList{{"p", []ir.Value{ir.Ent("T0", "a"), ir.Ent("T0", "b"), ir.Ent("T1", "c")}}, {"r", []ir.Value{ir.Ent("T1", "r"), ir.Ent("T0", "a")}}}
			n = 6
		}
		for k := 0; k < n; k++ {
			for _, f := range []string{"callback", "cancel"} {
				cc := *c
				cc.Fault, cc.FaultAt = f, k
				if !run(&cc, "fault", func(string, string) {}) {
					rt.Fatalf("C05/fault: wrong behaviour under an injected fault")
				}
			}
		}
	})
}

// TestMembershipTemplates: a variable principal / resource tested for membership in a context value that itself holds a
// variable (set member, record field), for every membership operator, effect and when/unless.
func TestMembershipTemplates(t *testing.T) {
	if !ev.First() {
		return
	}
	n := 0
	fail := func(sub, msg string) {
		n++
		if n <= 10 {
			t.Errorf("C05/%s: %s", sub, msg)
		}
	}
	store := ir.Store{
		{UID: ir.Ent("T0", "alice"), Parents: []ir.Value{ir.Ent("T1", "admins")}},
		{UID: ir.Ent("T0", "bob"), Parents: []ir.Value{ir.Ent("T1", "staff")}},
		{UID: ir.Ent("T1", "admins"), Parents: []ir.Value{ir.Ent("T1", "all")}},
		{UID: ir.Ent("T1", "staff"), Parents: []ir.Value{ir.Ent("T1", "all")}},
		{UID: ir.Ent("T1", "all")},
	}
	P, R, C := ir.Var("principal"), ir.Var("resource"), ir.Var("context")
	conds := []*ir.Expr{
		ir.IsIn(P, "T0", ir.Access(C, "groups")),
		ir.IsIn(P, "T1", ir.Access(C, "groups")),
		ir.Un(ir.OpNot, ir.IsIn(P, "T0", ir.Access(C, "groups"))),
		ir.Bin(ir.OpIn, P, ir.Access(C, "groups")),
		ir.IsIn(P, "T0", ir.Access(ir.Access(C, "rec"), "g")),
		ir.Bin(ir.OpIn, P, ir.Access(ir.Access(C, "rec"), "g")),
		ir.Bin(ir.OpContains, ir.Access(C, "groups"), R),
		ir.Bin(ir.OpContainsAny, ir.Access(C, "groups"), ir.SetE(R, ir.Lit(ir.Ent("T1", "staff")))),
		ir.Bin(ir.OpEq, ir.Access(C, "groups"), ir.SetE(ir.Lit(ir.Ent("T1", "admins")), ir.Lit(ir.Ent("T0", "nobody")))),
		ir.IsIn(P, "T0", ir.SetE(ir.Access(ir.Access(C, "rec"), "g"), R)),
		// `if <depends on a variable> then X else X`: the branches agree, the guard may fail or be a non-Boolean once bound
		ir.If(ir.Access(ir.Access(C, "rec"), "g"), ir.Lit(ir.Bool(true)), ir.Lit(ir.Bool(true))),
		ir.If(ir.Bin(ir.OpIn, P, ir.Access(ir.Access(C, "rec"), "n")), ir.Lit(ir.Bool(true)), ir.Lit(ir.Bool(true))),
		ir.If(ir.Bin(ir.OpEq, ir.Access(R, "missing"), ir.Lit(ir.Long(1))), ir.Lit(ir.Bool(true)), ir.Lit(ir.Bool(true))),
		ir.If(ir.Bin(ir.OpIn, P, ir.Access(C, "groups")), ir.Is(ir.Lit(ir.Ent("T0", "alice")), "T0"), ir.Bin(ir.OpEq, ir.Access(ir.Access(C, "rec"), "n"), ir.Lit(ir.Long(1)))),
		ir.Bin(ir.OpEq, ir.If(ir.Bin(ir.OpLt, ir.Access(ir.Access(C, "rec"), "g"), ir.Lit(ir.Long(2))), ir.Lit(ir.Long(7)), ir.Lit(ir.Long(7))), ir.Lit(ir.Long(7))),
	}
	pvals := []ir.Value{ir.Ent("T0", "alice"), ir.Ent("T0", "bob"), ir.Ent("T1", "staff")}
	gvals := []ir.Value{ir.Ent("T1", "admins"), ir.Ent("T1", "staff"), ir.Ent("T0", "zz")}
	count := 0
	for _, cond := range conds {
		for _, permit := range []bool{true, false} {
			for _, when := range []bool{true, false} {
				for mask := 1; mask < 8; mask++ { // which of principal / resource / g are variables
					p := ir.NewPolicy(permit)
					p.Conds = []ir.Cond{{When: when, Body: cond}}
					other := ir.NewPolicy(true)
					c := &Case{IDs: []string{"p", "base"}, Policies: []*ir.Policy{p, other}, Store: store}
					pr, rs, g := ir.Ent("T0", "alice"), ir.Ent("T1", "admins"), ir.Ent("T1", "admins")
					if mask&1 != 0 {
						pr = mkVar("p")
						c.Vars = append(c.Vars, VarList{"p", pvals})
					}
					if mask&2 != 0 {
						rs = mkVar("r")
						c.Vars = append(c.Vars, VarList{"r", gvals[:2]})
					}
					if mask&4 != 0 {
						g = mkVar("g")
						c.Vars = append(c.Vars, VarList{"g", gvals})
					}
					c.Template = ir.Request{Principal: pr, Action: ir.Ent("Action", "view"), Resource: rs,
						Context: ir.Rec(ir.F("groups", ir.Set(g, ir.Ent("T0", "nobody"))), ir.F("rec", ir.Rec(ir.F("g", g), ir.F("n", ir.Long(1)))))}
					count++
					run(c, "membership", fail)
					// the same template against a nil entity store ("no entities"): every hierarchy / attribute look-up still answers
					nc := *c
					nc.Store, nc.NilStore = nil, true
					count++
					run(&nc, "membership-nil-store", fail)
				}
			}
		}
	}
	ev.R.Space("membership operators over context values holding a variable x effect x when/unless x variable patterns of principal/resource/member", count)
}

// TestErrorPaths: unbound variable, unused variable, empty value list, nil parts.
func TestErrorPaths(t *testing.T) {
	if !ev.First() {
		return
	}
	n := 0
	fail := func(sub, msg string) {
		n++
		if n <= 10 {
			t.Errorf("C05/%s: %s", sub, msg)
		}
	}
	p := ir.NewPolicy(true)
	base := Case{IDs: []string{"p"}, Policies: []*ir.Policy{p}, Template: ir.Request{Principal: mkVar("p"), Action: ir.Ent("Action", "view"), Resource: ir.Ent("T1", "r"), Context: ir.Rec(ir.F("a", mkVar("c")))}}
	vals := []ir.Value{ir.Ent("T0", "a"), ir.Ent("T0", "b")}
	cases := []Case{}
	c1 := base
	c1.Vars = []VarList{{"p", vals}} // c unbound
	c2 := base
	c2.Vars = []VarList{{"p", vals}, {"c", []ir.Value{ir.Long(1)}}, {"zz", vals}} // zz unused
	c3 := base
	c3.Vars = []VarList{{"p", vals}, {"c", nil}} // empty list
	c4 := base
	c4.Vars = []VarList{{"p", nil}, {"c", nil}}
	c5 := base
	c5.Vars = []VarList{{"p", vals}, {"c", []ir.Value{ir.Long(1), ir.Long(1)}}} // duplicates: 4 callbacks
	cases = append(cases, c1, c2, c3, c4, c5)
	for _, part := range []string{"principal", "action", "resource", "context"} {
		c := base
		c.Template = ir.Request{Principal: ir.Ent("T0", "a"), Action: ir.Ent("Action", "view"), Resource: ir.Ent("T1", "r"), Context: ir.Rec()}
		c.NilPart = part
		cases = append(cases, c)
	}
	c6 := base // no variables at all: exactly one callback
	c6.Template = ir.Request{Principal: ir.Ent("T0", "a"), Action: ir.Ent("Action", "view"), Resource: ir.Ent("T1", "r"), Context: ir.Rec()}
	cases = append(cases, c6)
	for i := range cases {
		run(&cases[i], "error-paths", fail)
	}
	ev.R.Space("error paths: unbound, unused, empty list (one and all), duplicate values, nil part x 4, no variables", len(cases))
}

func TestReplay(t *testing.T) {
	rf, ok, err := ev.LoadReplay()
	if !ok {
		t.Skip("no replay requested")
	}
	if err != nil {
		t.Fatal(err)
	}
	if ev.ReplayFuzz(t, rf, fuzzProps, nil) {
		return
	}
	var c Case
	if err := json.Unmarshal(rf.Case, &c); err != nil {
		t.Fatalf("cannot decode replay case: %v", err)
	}
	if r := check(&c); r.sub != "" {
		ev.R.Violation(r.sub, &c, r.msg)
		t.Fatalf("C05 replay %s: %s", r.sub, r.msg)
	}
}
