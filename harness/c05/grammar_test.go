package c05

// Typed operand grammar: conditions are drawn from a small typed grammar whose atoms are the request positions of one
// fixed template - some of them whole variables (principal, resource, context.tags, context.flag, context.n), some
// composites that hold a variable deeper inside (context.groups = [g, ..], context.rec = {g: g, ..}, context.lim =
// {max: n, ..}), some known. Every operator therefore meets every mix of "unknown", "known composite with a nested
// unknown" and "known" operands in every operand position, under if/&&/|| whose guards are themselves unknown.

import (
	"testing"

	"pgregory.net/rapid"

	"verif/ev"
	"verif/ir"
)

type gramGen struct {
	rt *rapid.T
}

func (g *gramGen) pick(label string, n int) int { return rapid.IntRange(0, n-1).Draw(g.rt, label) }

var (
	gP, gR, gC = ir.Var("principal"), ir.Var("resource"), ir.Var("context")
	gAdmins    = ir.Ent("T1", "admins")
	gStaff     = ir.Ent("T1", "staff")
	gAll       = ir.Ent("T1", "all")
	gAlice     = ir.Ent("T0", "alice")
)

func ctx(k string) *ir.Expr { return ir.Access(gC, k) }

func (g *gramGen) boolE(d int) *ir.Expr {
	if d <= 0 {
		switch g.pick("batom", 5) {
		case 0:
			return ir.Bin(ir.OpEq, gP, ir.Lit(gAlice))
		case 1:
			return ctx("flag")
		case 2:
			return ir.Lit(ir.Bool(true))
		case 3:
			return ir.Lit(ir.Bool(false))
		default:
			return ir.Bin(ir.OpEq, gR, ir.Lit(gAdmins))
		}
	}
	switch g.pick("bop", 19) {
	case 0:
		return ir.Bin(ir.OpContains, g.setE(d-1), g.entE(d-1))
	case 1:
		return ir.Bin(ir.OpContainsAll, g.setE(d-1), g.setE(d-1))
	case 2:
		return ir.Bin(ir.OpContainsAny, g.setE(d-1), g.setE(d-1))
	case 3:
		return ir.Bin(ir.OpEq, g.setE(d-1), g.setE(d-1))
	case 4:
		return ir.Bin(ir.OpEq, g.recE(d-1), g.recE(d-1))
	case 5:
		return ir.Bin(ir.OpNe, g.entE(d-1), g.entE(d-1))
	case 6:
		return ir.Bin(ir.OpIn, g.entE(d-1), g.entE(d-1))
	case 7:
		return ir.Bin(ir.OpIn, g.entE(d-1), g.setE(d-1))
	case 8:
		return ir.Has(g.recE(d-1), []string{"g", "max", "n"}[g.pick("hk", 3)])
	case 9:
		return ir.Is(g.entE(d-1), []string{"T0", "T1"}[g.pick("ty", 2)])
	case 10:
		return ir.IsIn(g.entE(d-1), []string{"T0", "T1"}[g.pick("ty", 2)], g.setE(d-1))
	case 11:
		return ir.IsIn(g.entE(d-1), []string{"T0", "T1"}[g.pick("ty", 2)], g.entE(d-1))
	case 12:
		return ir.Bin(ir.OpAnd, g.boolE(d-1), g.boolE(d-1))
	case 13:
		return ir.Bin(ir.OpOr, g.boolE(d-1), g.boolE(d-1))
	case 14:
		return ir.Un(ir.OpNot, g.boolE(d-1))
	case 15:
		return ir.If(g.boolE(d-1), g.boolE(d-1), g.boolE(d-1))
	case 16:
		return ir.Bin([]ir.Op{ir.OpLt, ir.OpLe, ir.OpGt, ir.OpGe, ir.OpEq}[g.pick("cmp", 5)], g.longE(d-1), g.longE(d-1))
	case 17:
		return ir.Un(ir.OpIsEmpty, g.setE(d-1))
	default:
		return g.boolE(0)
	}
}

func (g *gramGen) setE(d int) *ir.Expr {
	if d <= 0 || g.pick("sleaf", 3) == 0 {
		switch g.pick("satom", 5) {
		case 0, 1:
			return ctx("groups") // [g, T0::"nobody"]
		case 2:
			return ctx("tags") // a whole variable
		case 3:
			return ctx("ks") // known
		default:
			return ir.SetE(ir.Lit(gAdmins), ir.Lit(gStaff))
		}
	}
	switch g.pick("sop", 3) {
	case 0:
		return ir.If(g.boolE(d-1), g.setE(d-1), g.setE(d-1))
	case 1:
		return ir.SetE(g.entE(d-1), g.entE(d-1))
	default:
		return ir.SetE(g.entE(d - 1))
	}
}

func (g *gramGen) recE(d int) *ir.Expr {
	if d <= 0 || g.pick("rleaf", 3) == 0 {
		switch g.pick("ratom", 4) {
		case 0, 1:
			return ctx("rec") // {g: g, n: 1}
		case 2:
			return ctx("lim") // {max: n, min: 0}
		default:
			return ir.RecE([]string{"g", "n"}, []*ir.Expr{ir.Lit(gAdmins), ir.Lit(ir.Long(1))})
		}
	}
	switch g.pick("rop", 2) {
	case 0:
		return ir.If(g.boolE(d-1), g.recE(d-1), g.recE(d-1))
	default:
		return ir.RecE([]string{"g", "n"}, []*ir.Expr{g.entE(d - 1), g.longE(d - 1)})
	}
}

func (g *gramGen) entE(d int) *ir.Expr {
	if d <= 0 || g.pick("eleaf", 3) == 0 {
		switch g.pick("eatom", 6) {
		case 0:
			return gP
		case 1:
			return gR
		case 2:
			return ir.Access(ctx("rec"), "g")
		case 3:
			return ir.Lit(gAdmins)
		case 4:
			return ir.Lit(gAll)
		default:
			return ir.Lit(gStaff)
		}
	}
	switch g.pick("eop", 2) {
	case 0:
		return ir.If(g.boolE(d-1), g.entE(d-1), g.entE(d-1))
	default:
		return ir.Access(g.recE(d-1), "g")
	}
}

func (g *gramGen) longE(d int) *ir.Expr {
	if d <= 0 || g.pick("lleaf", 3) == 0 {
		switch g.pick("latom", 5) {
		case 0:
			return ctx("n")
		case 1:
			return ir.Access(ctx("lim"), "max")
		case 2:
			return ctx("k")
		case 3:
			return ir.Access(ctx("rec"), "n")
		default:
			return ir.Lit(ir.Long(int64(g.pick("lv", 3))))
		}
	}
	switch g.pick("lop", 3) {
	case 0:
		return ir.If(g.boolE(d-1), g.longE(d-1), g.longE(d-1))
	case 1:
		return ir.Bin(ir.OpAdd, g.longE(d-1), g.longE(d-1))
	default:
		return ir.Access(g.recE(d-1), []string{"n", "max"}[g.pick("lk", 2)])
	}
}

var gramStore = ir.Store{
	{UID: ir.Ent("T0", "alice"), Parents: []ir.Value{ir.Ent("T1", "admins")}},
	{UID: ir.Ent("T0", "bob"), Parents: []ir.Value{ir.Ent("T1", "staff")}},
	{UID: ir.Ent("T1", "admins"), Parents: []ir.Value{ir.Ent("T1", "all")}},
	{UID: ir.Ent("T1", "staff"), Parents: []ir.Value{ir.Ent("T1", "all")}},
	{UID: ir.Ent("T1", "all")},
	{UID: ir.Ent("Action", "view"), Parents: []ir.Value{ir.Ent("Action", "readers")}},
	{UID: ir.Ent("Action", "readers"), Parents: []ir.Value{ir.Ent("Action", "everything")}},
}

func genGrammarCase(rt *rapid.T) *Case {
	g := &gramGen{rt: rt}
	c := &Case{Store: gramStore}
	// every position is a variable with probability 2/3, otherwise fixed to its first value
	val := func(name string, vals ...ir.Value) ir.Value {
		if rapid.IntRange(0, 2).Draw(rt, "isvar-"+name) == 0 {
			return vals[0]
		}
		vn := name
		if name == "f" && rapid.Bool().Draw(rt, "emptyname") {
			vn = "" // the empty string is a variable name like any other
		}
		c.Vars = append(c.Vars, VarList{Name: vn, Values: vals})
		return mkVar(vn)
	}
	p := val("p", gAlice, ir.Ent("T0", "bob"))
	r := val("r", gAdmins, gStaff)
	gv := val("g", gAdmins, gStaff, ir.Ent("T0", "zz"))
	tv := val("t", ir.Set(gAdmins), ir.Set(gStaff, ir.Ent("T0", "nobody")))
	fv := val("f", ir.Bool(true), ir.Bool(false))
	nv := val("n", ir.Long(1), ir.Long(2))
	c.Template = ir.Request{Principal: p, Action: ir.Ent("Action", "view"), Resource: r, Context: ir.Rec(
		ir.F("groups", ir.Set(gv, ir.Ent("T0", "nobody"))),
		ir.F("tags", tv),
		ir.F("rec", ir.Rec(ir.F("g", gv), ir.F("n", ir.Long(1)))),
		ir.F("flag", fv),
		ir.F("n", nv),
		ir.F("lim", ir.Rec(ir.F("max", nv), ir.F("min", ir.Long(0)))),
		ir.F("k", ir.Long(1)),
		ir.F("ks", ir.Set(gAdmins)),
	)}
	np := rapid.IntRange(1, 3).Draw(rt, "npol")
	for i := 0; i < np; i++ {
		pol := ir.NewPolicy(rapid.IntRange(0, 3).Draw(rt, "effect") > 0)
		// scopes whose targets are two parent links away (alice -> admins -> all, view -> readers -> everything): a part
		// that is already bound has its scope decided during partial evaluation
		switch rapid.IntRange(0, 5).Draw(rt, "pscope") {
		case 0:
			pol.Principal = ir.ScopeIn(gAll)
		case 1:
			pol.Principal = ir.ScopeIsIn("T0", gAll)
		}
		switch rapid.IntRange(0, 5).Draw(rt, "ascope") {
		case 0:
			pol.Action = ir.ScopeInSet([]ir.Value{ir.Ent("Action", "nothing"), ir.Ent("Action", "everything")})
		case 1:
			pol.Action = ir.ScopeIn(ir.Ent("Action", "everything"))
		case 2:
			pol.Action = ir.ScopeInSet([]ir.Value{ir.Ent("Action", "readers")})
		}
		if rapid.IntRange(0, 5).Draw(rt, "rscope") == 0 {
			pol.Resource = ir.ScopeIn(gAll)
		}
		nc := rapid.IntRange(1, 2).Draw(rt, "nconds")
		for k := 0; k < nc; k++ {
			pol.Conds = append(pol.Conds, ir.Cond{When: rapid.IntRange(0, 2).Draw(rt, "when") > 0, Body: g.boolE(rapid.IntRange(1, 3).Draw(rt, "depth"))})
		}
		c.Policies = append(c.Policies, pol)
		c.IDs = append(c.IDs, []string{"g0", "g1", "g2"}[i])
	}
	if rapid.Bool().Draw(rt, "base") {
		c.Policies = append(c.Policies, ir.NewPolicy(true))
		c.IDs = append(c.IDs, "base")
	}
	return c
}

func TestOperandGrammar(t *testing.T) {
	ev.SetChecks(ev.Scale(3000, 300000))
	ev.Check(t, func(rt *rapid.T) {
		c := genGrammarCase(rt)
		if !run(c, "grammar", func(string, string) {}) {
			rt.Fatalf("C05/grammar: batch authorization differs from brute force")
		}
	})
}
