package c15

import (
	"strings"

	"verif/ir"
	"verif/pgen"
	"verif/ref"
	"verif/sch"
)

// Static types of IR expressions over the reference schema model, used only by the known-finding matchers (which
// must recognise an input class from the case alone, so that they also work on shrunk cases and replays).
// nil = unknown / ill-typed; the typer never rejects anything.

type sty struct {
	k     ir.Kind // "" with never=true: element type of the empty set; "alt": one of alts (branches without a common type)
	never bool
	alts  []*sty
	ents  []string // entity: union of entity types
	elem  *sty
	attrs map[string]*sty
	opt   map[string]bool
}

type typer struct {
	rs       *sch.RSchema
	env      sch.REnv
	conflict bool // a least upper bound of two record types met one attribute with incompatible types
	mixedCmp bool // an ordering comparison between two different comparable types (long / datetime / duration)
	inPairs  [][2][]string
	inAny    bool // an `in` whose operand entity types are not known statically
}

func fromR(t sch.RType) *sty {
	switch t.K {
	case ir.KEntity:
		return &sty{k: ir.KEntity, ents: []string{t.Ent}}
	case ir.KSet:
		return &sty{k: ir.KSet, elem: fromR(*t.Elem)}
	case ir.KRecord:
		return recR(t.Attrs)
	}
	return &sty{k: t.K}
}

func recR(as []sch.RAttr) *sty {
	out := &sty{k: ir.KRecord, attrs: map[string]*sty{}, opt: map[string]bool{}}
	for _, a := range as {
		out.attrs[a.Name] = fromR(a.T)
		out.opt[a.Name] = a.Opt
	}
	return out
}

func fromValue(v ir.Value, ty *typer) *sty {
	switch v.K {
	case ir.KEntity:
		return &sty{k: ir.KEntity, ents: []string{v.T}}
	case ir.KSet:
		var e *sty = &sty{never: true}
		for _, m := range v.Elems {
			e = ty.lub(e, fromValue(m, ty))
		}
		return &sty{k: ir.KSet, elem: e}
	case ir.KRecord:
		out := &sty{k: ir.KRecord, attrs: map[string]*sty{}, opt: map[string]bool{}}
		for _, f := range v.Fields {
			out.attrs[f.K] = fromValue(f.V, ty)
		}
		return out
	}
	return &sty{k: v.K}
}

func (ty *typer) lub(a, b *sty) *sty {
	if a == nil || b == nil {
		return nil
	}
	if a.never {
		return b
	}
	if b.never {
		return a
	}
	if a.k != b.k || a.k == "alt" {
		return nil
	}
	switch a.k {
	case ir.KEntity:
		u := append([]string{}, a.ents...)
		for _, e := range b.ents {
			dup := false
			for _, x := range u {
				if x == e {
					dup = true
				}
			}
			if !dup {
				u = append(u, e)
			}
		}
		return &sty{k: ir.KEntity, ents: u}
	case ir.KSet:
		e := ty.lub(a.elem, b.elem)
		if e == nil {
			return nil
		}
		return &sty{k: ir.KSet, elem: e}
	case ir.KRecord:
		out := &sty{k: ir.KRecord, attrs: map[string]*sty{}, opt: map[string]bool{}}
		for k, x := range a.attrs {
			if y, ok := b.attrs[k]; ok {
				l := ty.lub(x, y)
				if l == nil {
					if x != nil && y != nil {
						ty.conflict = true
					}
					continue
				}
				out.attrs[k] = l
				out.opt[k] = a.opt[k] || b.opt[k]
			} else {
				out.attrs[k] = x
				out.opt[k] = true
			}
		}
		for k, y := range b.attrs {
			if _, ok := a.attrs[k]; !ok {
				out.attrs[k] = y
				out.opt[k] = true
			}
		}
		return out
	}
	return a
}

// flat lists the alternatives of s (s itself unless it is an "alt").
func flat(s *sty) []*sty {
	if s == nil {
		return nil
	}
	if s.k != "alt" {
		return []*sty{s}
	}
	var out []*sty
	for _, a := range s.alts {
		out = append(out, flat(a)...)
	}
	return out
}

// mkAlt builds the type "one of xs" (nil entries dropped).
func mkAlt(xs ...*sty) *sty {
	var out []*sty
	for _, x := range xs {
		out = append(out, flat(x)...)
	}
	switch len(out) {
	case 0:
		return nil
	case 1:
		return out[0]
	}
	return &sty{k: "alt", alts: out}
}

// overAlts applies f to every alternative of base.
func overAlts(base *sty, f func(*sty) *sty) *sty {
	var rs []*sty
	for _, b := range flat(base) {
		rs = append(rs, f(b))
	}
	return mkAlt(rs...)
}

func (ty *typer) attrOf(base *sty, name string) *sty {
	if base == nil {
		return nil
	}
	if base.k == "alt" {
		return overAlts(base, func(b *sty) *sty { return ty.attrOf(b, name) })
	}
	switch base.k {
	case ir.KRecord:
		return base.attrs[name]
	case ir.KEntity:
		var out *sty = &sty{never: true}
		for _, et := range base.ents {
			e := ty.rs.Entity(et)
			if e == nil {
				return nil
			}
			var at *sty
			for _, a := range e.Attrs {
				if a.Name == name {
					at = fromR(a.T)
				}
			}
			if at == nil {
				return nil
			}
			out = ty.lub(out, at)
			if out == nil {
				return nil
			}
		}
		if out.never {
			return nil
		}
		return out
	}
	return nil
}

func (ty *typer) tagOf(base *sty) *sty {
	if base != nil && base.k == "alt" {
		return overAlts(base, ty.tagOf)
	}
	if base == nil || base.k != ir.KEntity {
		return nil
	}
	var out *sty = &sty{never: true}
	for _, et := range base.ents {
		e := ty.rs.Entity(et)
		if e == nil || e.Tags == nil {
			return nil
		}
		out = ty.lub(out, fromR(*e.Tags))
		if out == nil {
			return nil
		}
	}
	if out.never {
		return nil
	}
	return out
}

var extReturn = map[string]ir.Kind{"decimal": ir.KDecimal, "ip": ir.KIP, "datetime": ir.KDatetime, "duration": ir.KDuration,
	"toDate": ir.KDatetime, "offset": ir.KDatetime, "toTime": ir.KDuration, "durationSince": ir.KDuration,
	"toMilliseconds": ir.KLong, "toSeconds": ir.KLong, "toMinutes": ir.KLong, "toHours": ir.KLong, "toDays": ir.KLong}

func comparable(k ir.Kind) bool { return k == ir.KLong || k == ir.KDatetime || k == ir.KDuration }

// of computes the static type of e and records the observations the matchers need; every sub-expression is visited.
func (ty *typer) of(e *ir.Expr) *sty {
	var args []*sty
	if e.Op != ir.OpLit && e.Op != ir.OpVar {
		for _, a := range e.Args {
			args = append(args, ty.of(a))
		}
	}
	boolT := &sty{k: ir.KBool}
	switch e.Op {
	case ir.OpLit:
		return fromValue(*e.Lit, ty)
	case ir.OpVar:
		switch e.Name {
		case "principal":
			return &sty{k: ir.KEntity, ents: []string{ty.env.P}}
		case "resource":
			return &sty{k: ir.KEntity, ents: []string{ty.env.R}}
		case "action":
			return &sty{k: ir.KEntity, ents: []string{ty.env.Action.T}}
		}
		return recR(ty.env.Ctx)
	case ir.OpIf:
		// The validator types an `if` whose condition it can decide statically (`principal is T`, `x has a` on a type
		// without a, `true`) by the taken branch only, otherwise by the least upper bound of both branches. The typer
		// does not decide conditions; it keeps all three as alternatives (every alternative that is a single type is
		// lubbed pairwise, so the record-conflict observation is not lost).
		var l *sty
		for _, a := range flat(args[1]) {
			for _, b := range flat(args[2]) {
				l = mkAlt(l, ty.lub(a, b))
			}
		}
		return mkAlt(l, args[1], args[2])
	case ir.OpLt, ir.OpLe, ir.OpGt, ir.OpGe:
		kinds := map[ir.Kind]bool{}
		for _, a := range args {
			for _, s := range flat(a) {
				if comparable(s.k) {
					kinds[s.k] = true
				}
			}
		}
		if len(kinds) > 1 {
			ty.mixedCmp = true
		}
		return boolT
	case ir.OpAdd, ir.OpSub, ir.OpMul, ir.OpNeg:
		return &sty{k: ir.KLong}
	case ir.OpIn:
		// entity types each operand can have, over all alternatives; anything else makes the pair set unknown
		ents := func(s *sty, unwrapSet bool) (out []string, known bool) {
			if s == nil {
				return nil, false
			}
			for _, a := range flat(s) {
				if unwrapSet && a.k == ir.KSet {
					if a.elem == nil {
						return nil, false
					}
					if a.elem.never {
						continue
					}
					es, ok := []string(nil), true
					for _, e := range flat(a.elem) {
						if e.k != ir.KEntity {
							ok = false
						}
						es = append(es, e.ents...)
					}
					if !ok {
						return nil, false
					}
					out = append(out, es...)
					continue
				}
				if a.k != ir.KEntity {
					return nil, false
				}
				out = append(out, a.ents...)
			}
			return out, true
		}
		ls, lok := ents(args[0], false)
		rs, rok := ents(args[1], true)
		if lok && rok {
			ty.inPairs = append(ty.inPairs, [2][]string{ls, rs})
		} else {
			ty.inAny = true
		}
		return boolT
	case ir.OpAccess:
		return ty.attrOf(args[0], e.Name)
	case ir.OpGetTag:
		return ty.tagOf(args[0])
	case ir.OpSet:
		var el *sty = &sty{never: true}
		for _, a := range args {
			if fs := flat(a); len(fs) > 0 {
				a = fs[0] // an alternative type: its first alternative is the least upper bound when there is one
			}
			el = ty.lub(el, a)
		}
		if el == nil {
			return nil
		}
		return &sty{k: ir.KSet, elem: el}
	case ir.OpRecord:
		out := &sty{k: ir.KRecord, attrs: map[string]*sty{}, opt: map[string]bool{}}
		for i, a := range args {
			out.attrs[e.Keys[i]] = a
		}
		return out
	case ir.OpExt:
		if k, ok := extReturn[e.Name]; ok {
			return &sty{k: k}
		}
		if _, known := ref.ExtArity[e.Name]; known {
			return boolT
		}
		return nil
	}
	return boolT
}

// dotted is the validator's identity of an access chain rooted in a variable ("" if e is not such a chain).
func dotted(e *ir.Expr) (string, []string) { return pgen.Dotted(e) }

// policyFacts collects the syntactic facts the matchers use.
type policyFacts struct {
	unknownZeroArgCall bool
	tagCollision       bool // `chain has "__tag:K"` with chain.getTag("K"), or chain.hasTag("K") with chain["__tag:K"]
	pathCollision      bool // two different access chains with the same dotted rendering
	nonPrimitiveLit    bool
	hasIn              bool
}

func factsOf(p *ir.Policy) policyFacts {
	var f policyFacts
	chains := map[string]string{}
	note := func(e *ir.Expr) {
		d, parts := dotted(e)
		if d == "" {
			return
		}
		key := strings.Join(parts, "\x00")
		if old, ok := chains[d]; ok && old != key {
			f.pathCollision = true
		}
		chains[d] = key
	}
	// tag / attribute look-alikes: a guard of one kind and a use of the other kind on the same chain and key
	guards := map[string]bool{} // "attr|chain|K" for `chain has "__tag:K"`, "tag|chain|K" for chain.hasTag("K")
	uses := map[string]bool{}   // "tag|chain|K" for chain.getTag("K"), "attr|chain|K" for chain["__tag:K"]
	for _, c := range p.Conds {
		c.Body.Walk(func(x *ir.Expr) {
			switch x.Op {
			case ir.OpExt:
				if _, known := ref.ExtArity[x.Name]; !known && len(x.Args) == 0 {
					f.unknownZeroArgCall = true
				}
			case ir.OpHas, ir.OpAccess:
				if d, _ := dotted(x.Args[0]); d != "" && strings.HasPrefix(x.Name, "__tag:") {
					k := strings.TrimPrefix(x.Name, "__tag:")
					if x.Op == ir.OpHas {
						guards["attr|"+d+"|"+k] = true
					} else {
						uses["attr|"+d+"|"+k] = true
					}
				}
				note(x.Args[0])
			case ir.OpHasTag, ir.OpGetTag:
				if d, _ := dotted(x.Args[0]); d != "" && x.Args[1].Op == ir.OpLit && x.Args[1].Lit.K == ir.KString {
					if x.Op == ir.OpHasTag {
						guards["tag|"+d+"|"+x.Args[1].Lit.S] = true
					} else {
						uses["tag|"+d+"|"+x.Args[1].Lit.S] = true
					}
				}
				note(x.Args[0])
			case ir.OpIn:
				f.hasIn = true
			case ir.OpLit:
				switch x.Lit.K {
				case ir.KBool, ir.KLong, ir.KString, ir.KEntity:
				default:
					f.nonPrimitiveLit = true
				}
			}
		})
	}
	// an attribute guard `chain has "__tag:K"` meets a tag use chain.getTag("K"), or a tag guard meets the attribute use
	for g := range guards {
		kind, rest, _ := strings.Cut(g, "|")
		other := "tag|"
		if kind == "tag" {
			other = "attr|"
		}
		if uses[other+rest] {
			f.tagCollision = true
		}
	}
	return f
}
