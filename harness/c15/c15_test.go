// C15: validated policies cannot fail with type errors on conforming data.
//
// Pipeline per rapid case: reference schema model (sch.GenRSchema: entity types in up to two namespaces, parent types
// incl. self loops and cycles, attributes of every type incl. optional / nested records / sets / entity references /
// the four extension types, tags, an enum type, actions with groups, contexts) -> schema IR (sch.Deresolve: namespaces,
// unqualified names, common types) -> cedar-go AST -> Resolve (cross-checked against the model) -> for every request
// environment two conforming worlds built constructively from the model (optional attributes and tags present and
// absent, referenced entities present and absent, every action entity present with its ancestor closure; checked with
// validate.Request / validate.Entities) -> policies from the type-directed generator with slips (pgen_test.go) ->
// validate.Policy in strict and in permissive mode -> every accepted policy is evaluated on every world of every
// environment, conjunct by conjunct with short-circuit (scope, then when / unless in order), by x/exp/eval.Eval and by
// the reference evaluator ref.Eval.
//
// Violation iff the reference evaluator's error class set of a conjunct contains type, nofunc, arity, attr or tag
// (cedar-go's own evaluation must fail too), or an evaluated condition is not a Boolean. Allowed failures: overflow,
// absent entity, extension run-time errors.
//
// Weaker than the statement (carve-outs): conformance is the constructive one of sch.GenWorld (enum entities have no
// parents / attributes / tags; parents only of declared parent types; action entities always present) - data that
// validate.Entities would also accept but the specification does not is not used; if cedar-go and the reference
// evaluator disagree on "fails" for a conjunct (that is C01's business) the case is labelled and skipped; a world that
// validate.Request / validate.Entities rejects is labelled and skipped (not a C15 violation).
//
// Known findings excluded by construction while open (each re-run by TestKnown): mixed-comparison,
// tag-capability-collision, path-capability-collision, unknown-function-accepted, permissive-record-lub; policies
// that would trip C16's open crash findings (hierarchy recursion, NodeValue literal panic) are not sent to the validator.
//
// Sensitivity (scratch copies of /repo and the harness, `go test ./c15/` = quick tier, one shard, seed 1):
//
//	M1 typechecker.go typeOfNot returns the operand's capabilities (`has` under `!` grants the capability)
//	   -> caught: soundness/missing-attribute, `!(principal has "a") && principal["a"] < 0`
//	M2 typechecker.go typeOfOr: lCaps.merge(rCaps) instead of intersect
//	   -> caught: soundness/missing-attribute, `((resource has "b") || ...) && (resource["b"] is NS::A)`
//	M3 cedar_type.go schemaRecordToCedarType: `required: true` (optional treated as required)
//	   -> caught: soundness/missing-attribute, `!(context has "a") && context["a"] < ...`
//	M4 cedar_type.go lookupEntityAttr keeps the first entity type's attribute for a union
//	   -> MISSED by one quick shard (2400 schemas), caught with the thorough per-shard budget (17 k schemas):
//	      `(if principal.hasTag("b") then resource["b"] else resource)["b"]` - the union access is a rare production
//	M5 (negative control) typechecker.go typeOfContains: strict element check skipped (harmless at run time)
//	   -> not reported, as intended
//	A replay file written from M3's violation fails under the mutant and passes on the unmodified tree
//	(`./check C15 quick --replay`).
package c15

import (
	"encoding/json"
	"fmt"
	"runtime/debug"
	"testing"

	"github.com/cedar-policy/cedar-go/types"
	xeval "github.com/cedar-policy/cedar-go/x/exp/eval"
	"github.com/cedar-policy/cedar-go/x/exp/schema"
	"github.com/cedar-policy/cedar-go/x/exp/schema/resolved"
	"github.com/cedar-policy/cedar-go/x/exp/schema/validate"
	"pgregory.net/rapid"

	"verif/conv"
	"verif/ev"
	"verif/gen"
	"verif/pgen"
	"verif/ir"
	"verif/ref"
	"verif/sch"
)

func TestMain(m *testing.M) {
	debug.SetMaxStack(64 << 20) // unbounded recursion in the validator (a C16 finding) must fail fast, not at 1 GB
	ev.Main(m, "C15")
}

type Case struct {
	R      *sch.RSchema `json:"r"`
	Schema *sch.Schema  `json:"schema"`
	Policy *ir.Policy   `json:"policy"`
	Strict bool         `json:"strict"`
	World  gen.World    `json:"world"`
	// Before: policies the same Validator object validated before this one (a Validator is made once per schema and
	// reused by its callers); empty = fresh validator
	Before []*ir.Policy `json:"before,omitempty"`
}

const forbidden = ref.EType | ref.ENoFunc | ref.EArity | ref.EAttr | ref.ETag

func modeName(strict bool) string {
	if strict {
		return "strict"
	}
	return "permissive"
}

func validator(r *resolved.Schema, strict bool) *validate.Validator {
	if strict {
		return validate.New(r, validate.WithStrict())
	}
	return validate.New(r, validate.WithPermissive())
}

// ---------------------------------------------------------------------------------------------
// Known-finding matchers

// dfsRevisits: see C16 (exact simulation of validate.isEntityDescendant's unbounded recursion).
func dfsRevisits(rs *sch.RSchema, child, anc string) bool {
	onPath := map[string]bool{}
	var rec func(c string) (bool, bool)
	rec = func(c string) (bool, bool) {
		if onPath[c] {
			return false, true
		}
		onPath[c] = true
		defer delete(onPath, c)
		e := rs.Entity(c)
		if e == nil {
			return false, false
		}
		for _, p := range e.Parents {
			if p == anc {
				return true, false
			}
			f, l := rec(p)
			if l {
				return false, true
			}
			if f {
				return true, false
			}
		}
		return false, false
	}
	_, loops := rec(child)
	return loops
}

func anyLoopingPair(rs *sch.RSchema) bool {
	for _, x := range rs.Entities {
		// worst case: an ancestor type that is never found; the walk loops iff a cycle is reachable from x
		if dfsRevisits(rs, x.Name, "\x00never found") {
			return true
		}
	}
	return false
}

// classify returns the key of the open known finding whose input class (rs, p, mode) belongs to, or "".
// crash=true means the policy must not even be sent to the validator.
func classify(rs *sch.RSchema, p *ir.Policy, strict bool) (key string, crash bool) {
	f := factsOf(p)
	if f.nonPrimitiveLit && ev.KnownOpen("C16", "nodevalue-literal-panic") {
		return "c16:nodevalue-literal-panic", true
	}
	var conflict, mixed, loops bool
	for _, env := range rs.Envs() {
		ty := &typer{rs: rs, env: env}
		for _, c := range p.Conds {
			ty.of(c.Body)
		}
		conflict = conflict || ty.conflict
		mixed = mixed || ty.mixedCmp
		if f.hasIn && !loops {
			if ty.inAny {
				loops = anyLoopingPair(rs)
			}
			for _, pr := range ty.inPairs {
				for _, a := range pr[0] {
					for _, b := range pr[1] {
						if a != b && dfsRevisits(rs, a, b) {
							loops = true
						}
					}
				}
			}
		}
	}
	if loops && ev.KnownOpen("C16", "entity-hierarchy-recursion") {
		return "c16:entity-hierarchy-recursion", true
	}
	switch {
	case f.unknownZeroArgCall && ev.KnownOpen("C15", "unknown-function-accepted"):
		return "unknown-function-accepted", false
	case mixed && ev.KnownOpen("C15", "mixed-comparison"):
		return "mixed-comparison", false
	case f.tagCollision && ev.KnownOpen("C15", "tag-capability-collision"):
		return "tag-capability-collision", false
	case f.pathCollision && ev.KnownOpen("C15", "path-capability-collision"):
		return "path-capability-collision", false
	case !strict && conflict && ev.KnownOpen("C15", "permissive-record-lub"):
		return "permissive-record-lub", false
	}
	return "", false
}

// ---------------------------------------------------------------------------------------------
// The oracle

type outcome struct {
	status string // rejected | accepted | conform-reject | eval-disagree | violation
	sub    string
	detail string
}

func accepts(sub string, c any, r *resolved.Schema, p *ir.Policy, strict bool) (ok bool, verr error) {
	ev.Pending(sub, c)
	defer ev.ClearPending()
	verr = validator(r, strict).Policy("p", conv.ToXPolicy(p))
	return verr == nil, verr
}

func conforms(r *resolved.Schema, w *gen.World) error {
	v := validator(r, true)
	if err := v.Request(conv.ToRequest(w.Req)); err != nil {
		return fmt.Errorf("validate.Request: %w", err)
	}
	em := conv.ToEntityMap(w.Store)
	for _, e := range w.Store {
		if err := v.Entity(em[conv.ToEntityUID(e.UID)]); err != nil {
			return fmt.Errorf("validate.Entity(%s): %w", e.UID.String(), err)
		}
	}
	return nil
}

type evalCtx struct {
	env  *ref.Env
	cenv xeval.Env
}

func newEvalCtx(w *gen.World) *evalCtx {
	return &evalCtx{env: ref.NewEnv(w.Store, w.Req), cenv: xeval.Env{
		Entities:  conv.ToEntityMap(w.Store),
		Principal: conv.ToEntityUID(w.Req.Principal),
		Action:    conv.ToEntityUID(w.Req.Action),
		Resource:  conv.ToEntityUID(w.Req.Resource),
		Context:   conv.ToRecord(w.Req.Context.Fields),
	}}
}

var classSubs = []struct {
	bit ref.ErrSet
	sub string
}{{ref.EType, "soundness/type-error"}, {ref.EAttr, "soundness/missing-attribute"}, {ref.ETag, "soundness/missing-tag"}, {ref.ENoFunc, "soundness/unknown-function"}, {ref.EArity, "soundness/arity"}}

// evaluate runs the accepted policy on one world: conjuncts in order with short-circuit.
func evaluate(p *ir.Policy, ec *evalCtx) outcome {
	for i, cj := range p.Conjuncts() {
		wantV, wantE := ref.Eval(cj, ec.env)
		gotV, gotErr := xeval.Eval(conv.ToNode(cj), ec.cenv)
		if (gotErr != nil) != (wantE != 0) {
			return outcome{status: "eval-disagree", detail: fmt.Sprintf("conjunct %d: cedar-go error=%v, reference classes=%s", i, gotErr, wantE)}
		}
		if wantE != 0 {
			if wantE&forbidden != 0 {
				for _, cs := range classSubs {
					if wantE&cs.bit != 0 {
						return outcome{status: "violation", sub: cs.sub, detail: fmt.Sprintf("the validator accepts the policy, but conjunct %d `%s` fails with %s on conforming data (cedar-go: %v)", i, cj.String(), wantE, gotErr)}
					}
				}
			}
			return outcome{status: "accepted"} // allowed failure: overflow / absent entity / extension error
		}
		if wantV.K != ir.KBool {
			return outcome{status: "violation", sub: "soundness/non-boolean-condition", detail: fmt.Sprintf("the validator accepts the policy, but conjunct %d `%s` evaluates to the non-Boolean %s", i, cj.String(), wantV.String())}
		}
		if b, ok := gotV.(types.Boolean); !ok || bool(b) != wantV.B {
			return outcome{status: "eval-disagree", detail: fmt.Sprintf("conjunct %d: cedar-go value %v, reference %s", i, gotV, wantV.String())}
		}
		if !wantV.B {
			break
		}
	}
	return outcome{status: "accepted"}
}

// check is the whole oracle on one replayable case (used by tables, TestKnown and TestReplay; the rapid property
// runs the same steps with the per-schema work shared).
func check(c *Case) outcome {
	r, err := schema.NewSchemaFromAST(sch.ToAST(c.Schema)).Resolve()
	if err != nil {
		return outcome{status: "broken", detail: "schema does not resolve: " + err.Error()}
	}
	ok, _ := accepts("replay", c, r, c.Policy, c.Strict)
	if !ok && len(c.Before) > 0 {
		v := validator(r, c.Strict)
		for _, b := range c.Before {
			_ = v.Policy("before", conv.ToXPolicy(b))
		}
		ok = v.Policy("p", conv.ToXPolicy(c.Policy)) == nil
	}
	if !ok {
		return outcome{status: "rejected"}
	}
	if err := conforms(r, &c.World); err != nil {
		return outcome{status: "conform-reject", detail: err.Error()}
	}
	return evaluate(c.Policy, newEvalCtx(&c.World))
}

// ---------------------------------------------------------------------------------------------
// Bookkeeping

func policyStats(p *ir.Policy) (ops int, usesSchema bool, labels []string) {
	seen := map[string]bool{}
	for _, c := range p.Conds {
		ops += c.Body.Ops()
		c.Body.Walk(func(x *ir.Expr) {
			switch x.Op {
			case ir.OpAccess, ir.OpHas, ir.OpGetTag, ir.OpHasTag:
				usesSchema = true
			}
			if x.Op != ir.OpLit && x.Op != ir.OpVar {
				seen["op:"+string(x.Op)] = true
			}
		})
	}
	for k := range seen {
		labels = append(labels, k)
	}
	return ops, usesSchema, labels
}

func policyText(p *ir.Policy) map[string]any {
	var conds []string
	for _, c := range p.Conds {
		kw := "when"
		if !c.When {
			kw = "unless"
		}
		conds = append(conds, kw+" { "+c.Body.String()+" }")
	}
	return map[string]any{"scope": []ir.Scope{p.Principal, p.Action, p.Resource}, "conditions": conds}
}

const maxEnvs = 6

func TestSoundness(t *testing.T) {
	ev.SetChecks(ev.Scale(2400, 240000))
	nPolicies := 6
	extAsCall := ev.KnownOpen("C16", "nodevalue-literal-panic")
	ev.Check(t, func(rt *rapid.T) {
		rs := sch.GenRSchema(rt)
		s := sch.Deresolve(rt, rs)
		r, err := schema.NewSchemaFromAST(sch.ToAST(s)).Resolve()
		if err != nil {
			ev.R.Label("schema:resolve-error", 1)
			if ev.R.WantSample("resolve-error") {
				ev.R.Sample("resolve-error", map[string]any{"schema": sch.RenderText(s, 0), "error": err.Error()})
			}
			return
		}
		// cedar-go's resolution against the reference model (namespaces left out)
		got := sch.Canon(r)
		got.Namespaces = nil
		if ir.JSON(got) != ir.JSON(sch.CanonOfR(rs)) {
			ev.R.Label("schema:resolve-disagree", 1)
			if ev.R.WantSample("resolve-disagree") {
				ev.R.Sample("resolve-disagree", map[string]any{"schema": sch.RenderText(s, 0), "cedar-go": got, "model": sch.CanonOfR(rs)})
			}
			return
		}
		ev.R.Label("schema:ok", 1)
		envs := rs.Envs()
		if len(envs) == 0 {
			return
		}
		if len(envs) > maxEnvs {
			start := rapid.IntRange(0, len(envs)-1).Draw(rt, "envstart")
			rot := append(append([]sch.REnv{}, envs[start:]...), envs[:start]...)
			envs = rot[:maxEnvs]
		}
		// conforming worlds, shared by all policies of this schema
		type world struct {
			w  gen.World
			ec *evalCtx
		}
		var worlds []world
		for _, env := range envs {
			for k := 0; k < 2; k++ {
				w := sch.GenWorld(rt, rs, env)
				if err := conforms(r, &w); err != nil {
					ev.R.Label("world:rejected-by-validate", 1)
					if ev.R.WantSample("world-rejected") {
						ev.R.Sample("world-rejected", map[string]any{"schema": sch.RenderText(s, 0), "world": w, "error": err.Error()})
					}
					continue
				}
				ev.R.Label("world:conforming", 1)
				worlds = append(worlds, world{w, newEvalCtx(&w)})
			}
		}
		schemaHash := ir.Hash(s)
		pathCache := pgen.Cache{}
		reused := map[bool]*validate.Validator{true: validator(r, true), false: validator(r, false)}
		before := map[bool][]*ir.Policy{}
		for i := 0; i < nPolicies; i++ {
			ei := rapid.IntRange(0, len(envs)-1).Draw(rt, "targetenv")
			env := envs[ei]
			p, slips := pgen.GenPolicy(rt, rs, env, extAsCall, pathCache, ei)
			ops, usesSchema, opLabels := policyStats(p)
			for _, strict := range []bool{true, false} {
				mode := modeName(strict)
				c := &Case{R: rs, Schema: s, Policy: p, Strict: strict}
				caseHash := ir.Hash(struct {
					S uint64
					P *ir.Policy
					M bool
				}{schemaHash, p, strict})
				if key, _ := classify(rs, p, strict); key != "" {
					ev.R.Excluded(key)
					continue
				}
				ok, verr := accepts("soundness", c, r, p, strict)
				// the same policy through the validator object that has already validated the earlier policies of this
				// schema: what it accepts counts as accepted too
				lerr := reused[strict].Policy("p", conv.ToXPolicy(p))
				if !ok && lerr == nil {
					ok = true
					c.Before = append([]*ir.Policy{}, before[strict]...)
					ev.R.Label("accepted-only-by-a-reused-validator:"+mode, 1)
				}
				before[strict] = append(before[strict], p)
				ev.R.Label("generated:"+mode, 1)
				if !ok {
					ev.R.Case(caseHash, false, "rejected:"+mode)
					if ev.R.WantSample("rejected:" + mode) {
						ev.R.Sample("rejected:"+mode, map[string]any{"schema": sch.RenderText(s, 0), "policy": policyText(p), "slips": slips, "validator": verr.Error()})
					}
					continue
				}
				labels := append([]string{"accepted:" + mode}, opLabels...)
				if len(slips) > 0 {
					labels = append(labels, "accepted-with-slip:"+mode)
					for _, sl := range slips {
						labels = append(labels, "accepted-slip:"+sl)
					}
				}
				ev.R.Case(caseHash, ops >= 3 && usesSchema, labels...)
				if class := "accepted:" + mode; ev.R.WantSample(class) && ops >= 3 {
					ev.R.Sample(class, map[string]any{"schema": sch.RenderText(s, 0), "policy": policyText(p), "slips": slips})
				}
				for _, w := range worlds {
					o := evaluate(p, w.ec)
					ev.R.Count(1)
					switch o.status {
					case "eval-disagree":
						ev.R.Label("eval-disagree (C01's business)", 1)
						if ev.R.WantSample("eval-disagree") {
							ev.R.Sample("eval-disagree", map[string]any{"policy": policyText(p), "world": w.w, "detail": o.detail})
						}
					case "violation":
						c.World = w.w
						ev.R.Violation(o.sub, c, o.detail)
						rt.Fatalf("C15/soundness: an accepted policy fails with a type-class error on conforming data")
					}
				}
			}
		}
	})
}

// ---------------------------------------------------------------------------------------------
// Deterministic cases: reproducers of the known findings (regression cases once fixed) and sanity cases that keep
// the check honest (well-typed guarded policies are accepted and evaluate; unguarded ones are rejected).

func lng() sch.RType { return sch.RType{K: ir.KLong} }
func str() sch.RType { return sch.RType{K: ir.KString} }

func baseSchema(attrs []sch.RAttr, tags *sch.RType, ctx []sch.RAttr) *sch.RSchema {
	return &sch.RSchema{
		Entities: []sch.REntity{{Name: "U", Attrs: attrs, Tags: tags}, {Name: "G"}},
		Actions:  []sch.RAction{{Type: "Action", ID: "view", Applies: true, Principals: []string{"U"}, Resources: []string{"U"}, Context: ctx}},
	}
}

// plainIR derives the schema IR without randomness: everything in the empty namespace, no common types.
func plainIR(rs *sch.RSchema) *sch.Schema {
	var conv func(t sch.RType) sch.Type
	conv = func(t sch.RType) sch.Type {
		switch t.K {
		case ir.KLong:
			return sch.Lng()
		case ir.KString:
			return sch.Str()
		case ir.KBool:
			return sch.Boo()
		case ir.KDecimal:
			return sch.Ext("decimal")
		case ir.KIP:
			return sch.Ext("ipaddr")
		case ir.KDatetime:
			return sch.Ext("datetime")
		case ir.KDuration:
			return sch.Ext("duration")
		case ir.KEntity:
			return sch.EntRef(t.Ent)
		case ir.KSet:
			return sch.SetOf(conv(*t.Elem))
		}
		var as []sch.Attr
		for _, a := range t.Attrs {
			as = append(as, sch.Attr{Name: a.Name, T: conv(a.T), Opt: a.Opt})
		}
		return sch.Rec(as...)
	}
	ns := sch.NS{}
	for _, e := range rs.Entities {
		ent := sch.Entity{Name: e.Name, Parents: e.Parents, HasShape: true}
		ent.Shape = conv(sch.RType{K: ir.KRecord, Attrs: e.Attrs}).Attrs
		if e.Tags != nil {
			t := conv(*e.Tags)
			ent.Tags = &t
		}
		ns.Entities = append(ns.Entities, ent)
	}
	for _, a := range rs.Actions {
		ctx := conv(sch.RType{K: ir.KRecord, Attrs: a.Context})
		ns.Actions = append(ns.Actions, sch.Action{Name: a.ID, Applies: &sch.Applies{Principals: a.Principals, Resources: a.Resources, Context: &ctx}})
	}
	return &sch.Schema{NS: []sch.NS{ns}}
}

func when(e *ir.Expr) *ir.Policy {
	p := ir.NewPolicy(true)
	p.Conds = []ir.Cond{{When: true, Body: e}}
	return p
}

func worldOf(attrs, tags, ctx []ir.Field) gen.World {
	return gen.World{
		Store: ir.Store{{UID: ir.Ent("U", "x"), Attrs: attrs, Tags: tags}, {UID: ir.Ent("Action", "view")}},
		Req:   ir.Request{Principal: ir.Ent("U", "x"), Action: ir.Ent("Action", "view"), Resource: ir.Ent("U", "x"), Context: ir.Value{K: ir.KRecord, Fields: ctx}},
	}
}

type known struct {
	key    string
	strict bool
	c      func() *Case
	what   string
}

func knownCases() []known {
	pr := ir.Var("principal")
	mk := func(rs *sch.RSchema, p *ir.Policy, strict bool, w gen.World) *Case {
		return &Case{R: rs, Schema: plainIR(rs), Policy: p, Strict: strict, World: w}
	}
	tagT := str()
	return []known{
		{"mixed-comparison", true, func() *Case {
			rs := baseSchema(nil, nil, nil)
			return mk(rs, when(ir.Bin(ir.OpLt, ir.Lit(ir.Long(1)), ir.Ext("datetime", ir.Lit(ir.Str("2020-01-01"))))), true, worldOf(nil, nil, nil))
		}, "`1 < datetime(\"2020-01-01\")` is accepted"},
		{"tag-capability-collision", true, func() *Case {
			rs := baseSchema([]sch.RAttr{{Name: "__tag:k", T: str(), Opt: true}}, &tagT, nil)
			p := when(ir.Bin(ir.OpAnd, ir.Has(pr, "__tag:k"), ir.Bin(ir.OpEq, ir.Bin(ir.OpGetTag, pr, ir.Lit(ir.Str("k"))), ir.Lit(ir.Str("v")))))
			return mk(rs, p, true, worldOf([]ir.Field{ir.F("__tag:k", ir.Str("a"))}, nil, nil))
		}, "`principal has \"__tag:k\" && principal.getTag(\"k\") == \"v\"` is accepted (attribute guard taken for a tag guard)"},
		{"path-capability-collision", true, func() *Case {
			inner := sch.RType{K: ir.KRecord, Attrs: []sch.RAttr{{Name: "n", T: lng(), Opt: true}}}
			rs := baseSchema([]sch.RAttr{{Name: "a", T: sch.RType{K: ir.KRecord, Attrs: []sch.RAttr{{Name: "b", T: inner}}}}, {Name: "a.b", T: inner}}, nil, nil)
			p := when(ir.Bin(ir.OpAnd, ir.Has(ir.Access(pr, "a.b"), "n"), ir.Bin(ir.OpEq, ir.Access(ir.Access(ir.Access(pr, "a"), "b"), "n"), ir.Lit(ir.Long(1)))))
			return mk(rs, p, true, worldOf([]ir.Field{ir.F("a", ir.Rec(ir.F("b", ir.Rec()))), ir.F("a.b", ir.Rec(ir.F("n", ir.Long(1))))}, nil, nil))
		}, "`principal[\"a.b\"] has n && principal.a.b.n == 1` is accepted (both paths share the capability key \"principal.a.b\")"},
		{"unknown-function-accepted", true, func() *Case {
			rs := baseSchema(nil, nil, nil)
			return mk(rs, when(ir.Ext("foo")), true, worldOf(nil, nil, nil))
		}, "`when { foo() }` (programmatic AST, unknown extension function, no arguments) is accepted"},
		{"permissive-record-lub", false, func() *Case {
			rs := baseSchema(nil, nil, []sch.RAttr{{Name: "c", T: sch.RType{K: ir.KBool}}})
			rec := ir.If(ir.Access(ir.Var("context"), "c"), ir.RecE([]string{"a"}, []*ir.Expr{ir.Lit(ir.Long(1))}), ir.RecE([]string{"a"}, []*ir.Expr{ir.Lit(ir.Str("s"))}))
			p := when(ir.Bin(ir.OpAnd, ir.Has(rec, "a"), ir.Bin(ir.OpEq, ir.Bin(ir.OpAdd, ir.Lit(ir.Long(1)), ir.Lit(ir.Str("z"))), ir.Lit(ir.Long(2)))))
			return mk(rs, p, false, worldOf(nil, nil, []ir.Field{ir.F("c", ir.Bool(true))}))
		}, "permissive: `(if context.c then {a: 1} else {a: \"s\"}) has a && 1 + \"z\" == 2` is accepted (the LUB drops `a`, `has a` is typed False)"},
	}
}

func TestKnown(t *testing.T) {
	if !ev.First() {
		return
	}
	for _, k := range knownCases() {
		c := k.c()
		o := check(c)
		ev.R.Case(ir.Hash(c), true, "known-case:"+k.key)
		if ev.KnownOpen("C15", k.key) {
			if o.status == "violation" {
				ev.R.KnownFinding(k.key, k.what+": "+o.detail)
			}
			continue
		}
		// fixed (or never listed): ordinary regression case
		switch o.status {
		case "violation":
			ev.R.Violation(o.sub, c, o.detail)
			t.Errorf("C15/%s: %s", o.sub, o.detail)
		case "broken", "conform-reject":
			ev.R.Broken("C15 known case " + k.key + ": " + o.status + ": " + o.detail)
		}
	}
}

// TestSanity: the pipeline accepts and evaluates what it should, and rejects what it should.
func TestSanity(t *testing.T) {
	if !ev.First() {
		return
	}
	pr := ir.Var("principal")
	tagT := lng()
	rs := baseSchema([]sch.RAttr{{Name: "n", T: lng(), Opt: true}, {Name: "s", T: str()}}, &tagT, []sch.RAttr{{Name: "o", T: lng(), Opt: true}})
	w := worldOf([]ir.Field{ir.F("s", ir.Str("v"))}, nil, nil)
	type tc struct {
		name   string
		p      *ir.Policy
		accept bool
	}
	cases := []tc{
		{"guarded optional attribute", when(ir.Bin(ir.OpAnd, ir.Has(pr, "n"), ir.Bin(ir.OpLt, ir.Access(pr, "n"), ir.Lit(ir.Long(3))))), true},
		{"unguarded optional attribute", when(ir.Bin(ir.OpLt, ir.Access(pr, "n"), ir.Lit(ir.Long(3)))), false},
		{"guarded tag", when(ir.Bin(ir.OpAnd, ir.Bin(ir.OpHasTag, pr, ir.Lit(ir.Str("k"))), ir.Bin(ir.OpEq, ir.Bin(ir.OpGetTag, pr, ir.Lit(ir.Str("k"))), ir.Lit(ir.Long(1))))), true},
		{"unguarded tag", when(ir.Bin(ir.OpEq, ir.Bin(ir.OpGetTag, pr, ir.Lit(ir.Str("k"))), ir.Lit(ir.Long(1)))), false},
		{"guarded context attribute", when(ir.Bin(ir.OpAnd, ir.Has(ir.Var("context"), "o"), ir.Bin(ir.OpGt, ir.Access(ir.Var("context"), "o"), ir.Lit(ir.Long(0))))), true},
		{"long plus string", when(ir.Bin(ir.OpEq, ir.Bin(ir.OpAdd, ir.Lit(ir.Long(1)), ir.Access(pr, "s")), ir.Lit(ir.Long(2)))), false},
		{"required attribute", when(ir.Like(ir.Access(pr, "s"), []ir.PatElem{{Wild: true}})), true},
	}
	for _, x := range cases {
		for _, strict := range []bool{true, false} {
			c := &Case{R: rs, Schema: plainIR(rs), Policy: x.p, Strict: strict, World: w}
			o := check(c)
			ev.R.Case(ir.Hash(c), true, "sanity")
			switch {
			case o.status == "violation":
				ev.R.Violation(o.sub, c, o.detail)
				t.Errorf("C15/%s: sanity case %q: %s", o.sub, x.name, o.detail)
			case o.status == "broken" || o.status == "conform-reject" || o.status == "eval-disagree":
				ev.R.Broken(fmt.Sprintf("C15 sanity case %q (%s): %s: %s", x.name, modeName(strict), o.status, o.detail))
			case (o.status == "accepted") != x.accept:
				// not a soundness matter when the validator rejects more; accepting the unsound ones would show up as a violation
				if x.accept {
					ev.R.Label("sanity: well-typed policy rejected ("+x.name+")", 1)
				}
			}
		}
	}
	ev.R.Space("sanity cases: guarded / unguarded optional attribute, tag, context attribute; ill-typed arithmetic; both modes", len(cases)*2)
}

func TestReplay(t *testing.T) {
	rf, ok, err := ev.LoadReplay()
	if !ok {
		t.Skip("no replay requested")
	}
	if err != nil {
		t.Fatal(err)
	}
	if ev.ReplayFuzz(t, rf, fuzzProps, fuzzRaw) {
		return
	}
	var c Case
	if err := json.Unmarshal(rf.Case, &c); err != nil || c.Schema == nil || c.Policy == nil {
		t.Fatalf("cannot decode replay case: %v", err)
	}
	o := check(&c)
	if key, _ := classify(c.R, c.Policy, c.Strict); key != "" {
		t.Logf("replay: the case belongs to the input class of the open known finding %q", key)
	}
	switch o.status {
	case "violation":
		ev.R.Violation(o.sub, &c, o.detail)
		t.Fatalf("C15 replay %s: %s", o.sub, o.detail)
	case "broken":
		t.Fatalf("C15 replay: %s", o.detail)
	}
	t.Logf("replay: %s %s", o.status, o.detail)
}
