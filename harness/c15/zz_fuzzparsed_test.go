package c15

// Byte-level fuzz target (thorough tier; see fzp): policies parsed from fuzzed text are validated against a fixed,
// feature-rich schema; whatever the validator accepts is evaluated on conforming worlds and must not fail with a
// type-class error. Seeds are policies of the type-directed generator for that schema, so the fuzzer starts from
// texts that use the schema's attribute names and mutates them into shapes the generator does not build.

import (
	"sync"
	"testing"

	"github.com/cedar-policy/cedar-go/x/exp/schema"
	"github.com/cedar-policy/cedar-go/x/exp/schema/resolved"
	"pgregory.net/rapid"

	"verif/ev"
	"verif/fzp"
	"verif/gen"
	"verif/ir"
	"verif/pgen"
	"verif/render"
	"verif/sch"
)

type fuzzFixture struct {
	rs     *sch.RSchema
	s      *sch.Schema
	r      *resolved.Schema
	worlds []gen.World
	ecs    []*evalCtx
	seeds  [][]byte
}

var (
	fixOnce sync.Once
	fix     *fuzzFixture
)

// fixture: the first generator example (by example number) whose schema resolves as the model says, has >= 2
// environments and yields >= 4 conforming worlds.
func fixture() *fuzzFixture {
	fixOnce.Do(func() {
		for k := 1; k <= 60 && fix == nil; k++ {
			f := &fuzzFixture{}
			g := rapid.Custom(func(rt *rapid.T) int {
				f.rs = sch.GenRSchema(rt)
				f.s = sch.Deresolve(rt, f.rs)
				r, err := schema.NewSchemaFromAST(sch.ToAST(f.s)).Resolve()
				if err != nil {
					return 0
				}
				f.r = r
				envs := f.rs.Envs()
				if len(envs) < 2 || len(f.rs.Entities) < 2 {
					return 0
				}
				cache := pgen.Cache{}
				for ei, env := range envs {
					for j := 0; j < 3; j++ {
						w := sch.GenWorld(rt, f.rs, env)
						if conforms(r, &w) == nil {
							f.worlds = append(f.worlds, w)
							f.ecs = append(f.ecs, newEvalCtx(&w))
						}
					}
					for j := 0; j < 12; j++ {
						p, _ := pgen.GenPolicy(rt, f.rs, env, true, cache, ei)
						f.seeds = append(f.seeds, []byte(render.Policy(p, render.Opts{})))
					}
				}
				return len(f.worlds)
			})
			if n := g.Example(k); n >= 4 && len(f.seeds) >= 20 {
				if len(f.seeds) > 60 {
					f.seeds = f.seeds[:60]
				}
				fix = f
			}
		}
	})
	return fix
}

func useParsed(p *ir.Policy, text string) bool {
	f := fixture()
	if f == nil {
		return true
	}
	ok := true
	for _, strict := range []bool{true, false} {
		if key, _ := classify(f.rs, p, strict); key != "" {
			continue
		}
		c := &Case{R: f.rs, Schema: f.s, Policy: p, Strict: strict}
		acc, _ := accepts("fuzz-parsed", c, f.r, p, strict)
		if !ev.Fuzzing() {
			ev.R.Label("fuzz-parsed-seed:accepted="+map[bool]string{true: "yes", false: "no"}[acc], 1)
		}
		if !acc {
			continue
		}
		for i, ec := range f.ecs {
			if o := evaluate(p, ec); o.status == "violation" {
				c.World = f.worlds[i]
				ev.R.Violation(o.sub, c, o.detail)
				ok = false
				break
			}
		}
	}
	return ok
}

var fuzzRaw = map[string]func(*testing.T, []byte){
	"FuzzParsedText": fzp.Target(useParsed, "C15/fuzz-parsed: an accepted policy parsed from fuzzed text fails with a type-class error on conforming data"),
}

func FuzzParsedText(f *testing.F) {
	if fx := fixture(); fx != nil {
		for _, s := range fx.seeds {
			f.Add(s)
		}
	}
	f.Fuzz(fuzzRaw["FuzzParsedText"])
}
