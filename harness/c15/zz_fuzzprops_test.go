package c15

// Coverage-guided driving of this package's rapid properties (thorough tier; see ev/fuzz.go).

import (
	"testing"

	"verif/ev"
)

var fuzzProps = map[string]func(*testing.T){
	"FuzzPropSoundness": TestSoundness,
}

func FuzzPropSoundness(f *testing.F) { ev.FuzzProp(f, TestSoundness) }
