package c15

// Deterministic tables: every small Boolean context around a `has` / `hasTag` guard, and attribute access on a union of
// two entity types, each policy validated in both modes and - when accepted - evaluated on worlds that cover both
// values of the free Boolean and presence / absence of the optional attribute. The oracle is the evaluation: an
// accepted policy that fails with a missing attribute / tag on one of the worlds is a violation; rejected policies
// only count as covered.

import (
	"fmt"
	"testing"

	"verif/ev"
	"verif/gen"
	"verif/ir"
	"verif/sch"
)

// formulas over the atoms: depth <= 1 everywhere, depth 2 with one compound operand.
func guardFormulas(atoms []*ir.Expr) []*ir.Expr {
	var d1 []*ir.Expr
	for _, a := range atoms {
		d1 = append(d1, ir.Un(ir.OpNot, a))
		for _, b := range atoms {
			d1 = append(d1, ir.Bin(ir.OpAnd, a, b), ir.Bin(ir.OpOr, a, b))
			for _, c := range atoms {
				d1 = append(d1, ir.If(a, b, c))
			}
		}
	}
	out := append([]*ir.Expr{}, atoms...)
	out = append(out, d1...)
	for _, x := range d1 {
		out = append(out, ir.Un(ir.OpNot, x))
		for _, a := range atoms {
			out = append(out, ir.Bin(ir.OpAnd, x, a), ir.Bin(ir.OpAnd, a, x), ir.Bin(ir.OpOr, x, a), ir.Bin(ir.OpOr, a, x))
			for _, b := range atoms {
				out = append(out, ir.If(x, a, b), ir.If(a, x, b), ir.If(a, b, x))
			}
		}
	}
	return out
}

func TestGuardTable(t *testing.T) {
	if !ev.First() {
		return
	}
	pr, cx := ir.Var("principal"), ir.Var("context")
	tagT := lng()
	rs := baseSchema([]sch.RAttr{{Name: "n", T: lng(), Opt: true}, {Name: "s", T: str()}}, &tagT, []sch.RAttr{{Name: "c", T: sch.RType{K: ir.KBool}}})
	s := plainIR(rs)
	type variant struct {
		name  string
		guard *ir.Expr
		body  *ir.Expr
	}
	variants := []variant{
		{"attribute", ir.Has(pr, "n"), ir.Bin(ir.OpLt, ir.Access(pr, "n"), ir.Lit(ir.Long(3)))},
		{"tag", ir.Bin(ir.OpHasTag, pr, ir.Lit(ir.Str("k"))), ir.Bin(ir.OpEq, ir.Bin(ir.OpGetTag, pr, ir.Lit(ir.Str("k"))), ir.Lit(ir.Long(1)))},
	}
	var worlds []gen.World
	for _, c := range []bool{true, false} {
		for _, present := range []bool{false, true} {
			attrs := []ir.Field{ir.F("s", ir.Str("v"))}
			var tags []ir.Field
			if present {
				attrs = append(attrs, ir.F("n", ir.Long(1)))
				tags = []ir.Field{ir.F("k", ir.Long(1))}
			}
			worlds = append(worlds, worldOf(attrs, tags, []ir.Field{ir.F("c", ir.Bool(c))}))
		}
	}
	n, accepted := 0, 0
	for _, v := range variants {
		atoms := []*ir.Expr{v.guard, ir.Access(cx, "c"), ir.Lit(ir.Bool(true)), ir.Lit(ir.Bool(false))}
		forms := guardFormulas(atoms)
		// quick: every third compound formula (all of depth <= 1); thorough: all
		for fi, f := range forms {
			if !ev.Thorough() && fi >= 108 && fi%3 != 0 {
				continue
			}
			for _, shape := range []int{0, 1, 2} {
				var body *ir.Expr
				switch shape {
				case 0:
					body = ir.Bin(ir.OpAnd, f, v.body)
				case 1:
					body = ir.If(f, v.body, ir.Lit(ir.Bool(false)))
				default:
					body = ir.Bin(ir.OpOr, ir.Un(ir.OpNot, f), v.body)
				}
				for _, strict := range []bool{true, false} {
					n++
					acc := false
					for wi := range worlds {
						c := &Case{R: rs, Schema: s, Policy: when(body), Strict: strict, World: worlds[wi]}
						o := check(c)
						if o.status == "rejected" {
							break
						}
						acc = true
						switch o.status {
						case "violation":
							ev.R.Violation(o.sub, c, o.detail)
							t.Errorf("C15/%s: guard table (%s guard, formula %d, shape %d, %s): %s", o.sub, v.name, fi, shape, modeName(strict), o.detail)
							return
						case "broken", "conform-reject", "eval-disagree":
							ev.R.Broken(fmt.Sprintf("C15 guard table: %s: %s", o.status, o.detail))
							return
						}
					}
					if acc {
						accepted++
					}
					ev.R.Case(ir.Hash([]any{"guard-table", v.name, fi, shape, strict}), acc, "guard-table")
				}
			}
		}
	}
	ev.R.Label("guard-table:accepted", int64(accepted))
	ev.R.Space("Boolean contexts (depth <= 2 over guard, context.c, true, false) x {f && use, if f then use else false, !f || use} x {attribute, tag} x mode, evaluated on 4 worlds when accepted", n)
}

// TestUnionTable: `(if context.c then principal else resource).n` where the two entity types declare n as required /
// optional / with different types, in both branch orders and with type names in both sort orders.
func TestUnionTable(t *testing.T) {
	if !ev.First() {
		return
	}
	pr, rsrc, cx := ir.Var("principal"), ir.Var("resource"), ir.Var("context")
	n := 0
	for _, names := range [][2]string{{"A", "Z"}, {"Z", "A"}} {
		for pk := 0; pk < 3; pk++ { // principal type: n required / optional / absent
			for rk := 0; rk < 4; rk++ { // resource type: required / optional / absent / required String
				attrsOf := func(k int) []sch.RAttr {
					switch k {
					case 0:
						return []sch.RAttr{{Name: "n", T: lng()}}
					case 1:
						return []sch.RAttr{{Name: "n", T: lng(), Opt: true}}
					case 3:
						return []sch.RAttr{{Name: "n", T: str()}}
					}
					return nil
				}
				rs := &sch.RSchema{
					Entities: []sch.REntity{{Name: names[0], Attrs: attrsOf(pk)}, {Name: names[1], Attrs: attrsOf(rk)}},
					Actions: []sch.RAction{{Type: "Action", ID: "view", Applies: true, Principals: []string{names[0]}, Resources: []string{names[1]},
						Context: []sch.RAttr{{Name: "c", T: sch.RType{K: ir.KBool}}}}},
				}
				s := plainIR(rs)
				valOf := func(k int) []ir.Field {
					switch k {
					case 0:
						return []ir.Field{ir.F("n", ir.Long(1))}
					case 3:
						return []ir.Field{ir.F("n", ir.Str("x"))}
					}
					return nil // optional: absent
				}
				for _, swap := range []bool{false, true} {
					for _, use := range []int{0, 1, 2} {
						u := ir.If(ir.Access(cx, "c"), pr, rsrc)
						if swap {
							u = ir.If(ir.Access(cx, "c"), rsrc, pr)
						}
						var body *ir.Expr
						switch use {
						case 0:
							body = ir.Bin(ir.OpLt, ir.Access(u, "n"), ir.Lit(ir.Long(3)))
						case 1:
							body = ir.Bin(ir.OpAnd, ir.Has(u, "n"), ir.Bin(ir.OpLt, ir.Access(u, "n"), ir.Lit(ir.Long(3))))
						default:
							body = ir.Bin(ir.OpEq, ir.Access(u, "n"), ir.Access(u, "n"))
						}
						for _, strict := range []bool{true, false} {
							n++
							acc := false
							for _, c := range []bool{true, false} {
								w := gen.World{
									Store: ir.Store{{UID: ir.Ent(names[0], "p"), Attrs: valOf(pk)}, {UID: ir.Ent(names[1], "r"), Attrs: valOf(rk)}, {UID: ir.Ent("Action", "view")}},
									Req:   ir.Request{Principal: ir.Ent(names[0], "p"), Action: ir.Ent("Action", "view"), Resource: ir.Ent(names[1], "r"), Context: ir.Rec(ir.F("c", ir.Bool(c)))},
								}
								cs := &Case{R: rs, Schema: s, Policy: when(body), Strict: strict, World: w}
								o := check(cs)
								if o.status == "rejected" {
									break
								}
								acc = true
								switch o.status {
								case "violation":
									ev.R.Violation(o.sub, cs, o.detail)
									t.Errorf("C15/%s: union table (%v, principal kind %d, resource kind %d, swap %v, use %d, %s): %s", o.sub, names, pk, rk, swap, use, modeName(strict), o.detail)
									return
								case "broken", "conform-reject", "eval-disagree":
									ev.R.Broken(fmt.Sprintf("C15 union table: %s: %s", o.status, o.detail))
									return
								}
							}
							ev.R.Case(ir.Hash([]any{"union-table", names, pk, rk, swap, use, strict}), acc, "union-table")
						}
					}
				}
			}
		}
	}
	ev.R.Space("attribute n on a union of two entity types: {required, optional, absent} x {required, optional, absent, other type} x type-name order x branch order x {read, guarded read, read twice} x mode", n)
}

// TestStaticTruthTable: expressions whose truth value a validator may decide from the schema alone (equality and
// inequality of variables and literals of related / unrelated entity types, `is`, `in` between entity types that can or
// cannot be related, action tests) used as the guard of something ill-typed, in every position where a statically
// known value lets the validator skip a branch. The oracle is the evaluation on conforming worlds.
func TestStaticTruthTable(t *testing.T) {
	if !ev.First() {
		return
	}
	pr, rsrc, act, cx := ir.Var("principal"), ir.Var("resource"), ir.Var("action"), ir.Var("context")
	rs := &sch.RSchema{
		Entities: []sch.REntity{{Name: "U", Parents: []string{"G"}, Attrs: []sch.RAttr{{Name: "n", T: lng(), Opt: true}}}, {Name: "G"}, {Name: "D", Attrs: []sch.RAttr{{Name: "owner", T: sch.RType{K: ir.KEntity, Ent: "U"}}}}},
		Actions: []sch.RAction{
			{Type: "Action", ID: "view", Applies: true, Principals: []string{"U"}, Resources: []string{"D"}, Context: []sch.RAttr{{Name: "c", T: sch.RType{K: ir.KBool}}}},
			{Type: "Action", ID: "edit", Applies: true, Principals: []string{"U"}, Resources: []string{"D"}, Context: []sch.RAttr{{Name: "c", T: sch.RType{K: ir.KBool}}}},
		},
	}
	s := plainIR(rs)
	U, G, D := func(id string) *ir.Expr { return ir.Lit(ir.Ent("U", id)) }, func(id string) *ir.Expr { return ir.Lit(ir.Ent("G", id)) }, func(id string) *ir.Expr { return ir.Lit(ir.Ent("D", id)) }
	view := ir.Lit(ir.Ent("Action", "view"))
	facts := []*ir.Expr{
		ir.Bin(ir.OpEq, pr, rsrc), ir.Bin(ir.OpNe, pr, rsrc), ir.Bin(ir.OpEq, pr, pr), ir.Bin(ir.OpNe, pr, pr),
		ir.Bin(ir.OpEq, pr, U("u")), ir.Bin(ir.OpNe, pr, U("u")), ir.Bin(ir.OpEq, pr, D("d")), ir.Bin(ir.OpNe, pr, D("d")),
		ir.Bin(ir.OpEq, U("u"), U("u")), ir.Bin(ir.OpNe, U("u"), U("u")), ir.Bin(ir.OpEq, U("u"), U("v")), ir.Bin(ir.OpNe, U("u"), U("v")), ir.Bin(ir.OpNe, U("u"), G("u")), ir.Bin(ir.OpEq, U("u"), G("u")),
		ir.Bin(ir.OpEq, ir.Access(rsrc, "owner"), pr), ir.Bin(ir.OpNe, ir.Access(rsrc, "owner"), pr), ir.Bin(ir.OpNe, ir.Access(rsrc, "owner"), rsrc),
		ir.Is(pr, "U"), ir.Is(pr, "D"), ir.Is(rsrc, "D"), ir.Is(rsrc, "G"), ir.IsIn(pr, "U", G("g")), ir.IsIn(pr, "D", G("g")),
		ir.Bin(ir.OpIn, pr, G("g")), ir.Bin(ir.OpIn, pr, D("d")), ir.Bin(ir.OpIn, pr, pr), ir.Bin(ir.OpIn, rsrc, G("g")), ir.Bin(ir.OpIn, pr, ir.SetE(D("d"), G("g"))), ir.Bin(ir.OpIn, pr, ir.SetE()),
		ir.Bin(ir.OpEq, act, view), ir.Bin(ir.OpNe, act, view), ir.Bin(ir.OpIn, act, view), ir.Bin(ir.OpIn, act, ir.SetE(view)), ir.Bin(ir.OpEq, act, ir.Lit(ir.Ent("Action", "nosuch"))), ir.Bin(ir.OpNe, act, ir.Lit(ir.Ent("Action", "nosuch"))),
		ir.Bin(ir.OpEq, ir.Lit(ir.Long(1)), ir.Lit(ir.Long(1))), ir.Bin(ir.OpNe, ir.Lit(ir.Long(1)), ir.Lit(ir.Long(1))), ir.Bin(ir.OpNe, ir.Lit(ir.Long(1)), ir.Lit(ir.Long(2))),
		ir.Has(pr, "n"), ir.Has(pr, "zz"), ir.Has(cx, "c"), ir.Has(cx, "zz"), ir.Has(ir.Lit(ir.Rec(ir.F("a", ir.Long(1)))), "a"), ir.Has(ir.Lit(ir.Rec(ir.F("a", ir.Long(1)))), "b"),
		ir.Access(cx, "c"),
	}
	bads := []*ir.Expr{
		ir.Bin(ir.OpEq, ir.Bin(ir.OpAdd, ir.Lit(ir.Long(1)), ir.Lit(ir.Str("a"))), ir.Lit(ir.Long(2))),
		ir.Bin(ir.OpLt, ir.Access(pr, "n"), ir.Lit(ir.Long(3))), // unguarded optional attribute
		ir.Un(ir.OpNot, ir.Lit(ir.Long(1))),
	}
	var worlds []gen.World
	for _, c := range []bool{true, false} {
		for _, a := range []string{"view", "edit"} {
			for _, owner := range []string{"u", "v"} {
				worlds = append(worlds, gen.World{
					Store: ir.Store{{UID: ir.Ent("U", "u"), Parents: []ir.Value{ir.Ent("G", "g")}}, {UID: ir.Ent("U", "v")}, {UID: ir.Ent("G", "g")},
						{UID: ir.Ent("D", "d"), Attrs: []ir.Field{ir.F("owner", ir.Ent("U", owner))}}, {UID: ir.Ent("Action", "view")}, {UID: ir.Ent("Action", "edit")}},
					Req: ir.Request{Principal: ir.Ent("U", "u"), Action: ir.Ent("Action", a), Resource: ir.Ent("D", "d"), Context: ir.Rec(ir.F("c", ir.Bool(c)))},
				})
			}
		}
	}
	n, accepted := 0, 0
	for fi, f := range facts {
		for bi, bad := range bads {
			for shape := 0; shape < 8; shape++ {
				nf := ir.Un(ir.OpNot, f)
				var body *ir.Expr
				switch shape {
				case 0:
					body = ir.Bin(ir.OpAnd, f, bad)
				case 1:
					body = ir.Bin(ir.OpAnd, nf, bad)
				case 2:
					body = ir.Bin(ir.OpOr, f, bad)
				case 3:
					body = ir.Bin(ir.OpOr, nf, bad)
				case 4:
					body = ir.If(f, bad, ir.Lit(ir.Bool(true)))
				case 5:
					body = ir.If(f, ir.Lit(ir.Bool(true)), bad)
				case 6:
					body = ir.Bin(ir.OpAnd, ir.Bin(ir.OpOr, f, ir.Access(cx, "c")), bad)
				default:
					body = ir.Bin(ir.OpOr, ir.Bin(ir.OpAnd, f, ir.Access(cx, "c")), bad)
				}
				for _, strict := range []bool{true, false} {
					n++
					acc := false
					for wi := range worlds {
						c := &Case{R: rs, Schema: s, Policy: when(body), Strict: strict, World: worlds[wi]}
						o := check(c)
						if o.status == "rejected" {
							break
						}
						acc = true
						switch o.status {
						case "violation":
							ev.R.Violation(o.sub, c, o.detail)
							t.Errorf("C15/%s: static-truth table (fact %d, bad %d, shape %d, %s): %s", o.sub, fi, bi, shape, modeName(strict), o.detail)
							return
						case "broken", "conform-reject", "eval-disagree":
							ev.R.Broken(fmt.Sprintf("C15 static-truth table: %s: %s", o.status, o.detail))
							return
						}
					}
					if acc {
						accepted++
					}
					ev.R.Case(ir.Hash([]any{"static-truth", fi, bi, shape, strict}), acc, "static-truth-table")
				}
			}
		}
	}
	ev.R.Label("static-truth-table:accepted", int64(accepted))
	ev.R.Space("statically decidable facts (==, !=, is, in, action tests, has) x ill-typed operand x 8 guard positions x mode, evaluated on 8 worlds when accepted", n)
}
