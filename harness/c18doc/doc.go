// Package c18doc holds the document bookkeeping shared by C18 (streaming decode, positions) and C20 (document loading):
// an independent mini-lexer that yields token / comment spans of a valid Cedar policy document, the position oracle
// (line, column of a byte offset) and an exact-length filler of whitespace and comments.
// It shares no code with cedar-go's tokenizer.
package c18doc

import (
	"strings"
	"unicode/utf8"
)

// Pos computes the 1-based line and column of byte offset off in doc: line = 1 + number of '\n' before off,
// column = 1 + number of runes between the last '\n' before off (or the start) and off. '\r' is an ordinary character.
func Pos(doc string, off int) (line, col int) {
	line, col = 1, 1
	for i := 0; i < off && i < len(doc); {
		r, w := utf8.DecodeRuneInString(doc[i:])
		if r == '\n' {
			line++
			col = 1
		} else {
			col++
		}
		i += w
	}
	return
}

// Span is a token or comment in a document.
type Span struct {
	Start, End int    // byte offsets, End exclusive
	Kind       string // ident | int | string | op | linecomment | blockcomment
	NonASCII   bool   // contains a multi-byte rune
}

func isIdent(c byte, first bool) bool {
	return c == '_' || (c >= 'a' && c <= 'z') || (c >= 'A' && c <= 'Z') || (!first && c >= '0' && c <= '9')
}

var ops2 = []string{"::", "==", "!=", "<=", ">=", "&&", "||"}

// Lex splits a *valid* document into spans. ok=false means the lexer met something it does not understand
// (the caller then simply has no span information; nothing is asserted from it).
func Lex(doc string) (spans []Span, ok bool) {
	i := 0
	n := len(doc)
	add := func(s, e int, k string) {
		na := false
		for j := s; j < e; j++ {
			if doc[j] >= 0x80 {
				na = true
				break
			}
		}
		spans = append(spans, Span{s, e, k, na})
	}
	for i < n {
		c := doc[i]
		switch {
		case c == ' ' || c == '\t' || c == '\n' || c == '\r':
			i++
		case c == '/' && i+1 < n && doc[i+1] == '/':
			j := i + 2
			for j < n && doc[j] != '\n' {
				j++
			}
			add(i, j, "linecomment")
			i = j
		case c == '/' && i+1 < n && doc[i+1] == '*':
			// cedar-go: the comment ends at the first "*/" whose '*' comes after the opening "/*"
			k := strings.Index(doc[i+2:], "*/")
			if k < 0 {
				return spans, false
			}
			j := i + 2 + k + 2
			add(i, j, "blockcomment")
			i = j
		case isIdent(c, true):
			j := i + 1
			for j < n && isIdent(doc[j], false) {
				j++
			}
			add(i, j, "ident")
			i = j
		case c >= '0' && c <= '9':
			j := i + 1
			for j < n && doc[j] >= '0' && doc[j] <= '9' {
				j++
			}
			add(i, j, "int")
			i = j
		case c == '"':
			j := i + 1
			for j < n && doc[j] != '"' {
				if doc[j] == '\n' {
					return spans, false
				}
				if doc[j] == '\\' {
					j++
				}
				j++
			}
			if j >= n {
				return spans, false
			}
			add(i, j+1, "string")
			i = j + 1
		default:
			if i+1 < n {
				two := doc[i : i+2]
				hit := false
				for _, o := range ops2 {
					if o == two {
						hit = true
					}
				}
				if hit {
					add(i, i+2, "op")
					i += 2
					continue
				}
			}
			if strings.IndexByte("@.,;(){}[]+-*!<>:", c) < 0 {
				return spans, false
			}
			add(i, i+1, "op")
			i++
		}
	}
	return spans, true
}

// PolicyStarts returns the offset of the first token of every policy: the first non-comment token of the document
// and the first non-comment token after each ';' (which occurs only as the policy terminator outside strings and comments).
func PolicyStarts(doc string, spans []Span) []int {
	var out []int
	want := true
	for _, s := range spans {
		if s.Kind == "linecomment" || s.Kind == "blockcomment" {
			continue
		}
		if want {
			out = append(out, s.Start)
			want = false
		}
		if s.Kind == "op" && doc[s.Start:s.End] == ";" {
			want = true
		}
	}
	return out
}

func strs(rs ...rune) []string {
	out := make([]string, len(rs))
	for i, r := range rs {
		out[i] = string(r)
	}
	return out
}

// runes used inside comments, by encoded length (written as code points: several are invisible or not allowed in Go source)
var (
	fill1 = []string{"a", "x", " ", "*", "/", "-", "\"", ";", "@", "'", "\\", "\t", "0"}
	fill2 = strs(0xe9, 0xdf, 0x3a9, 0x80, 0xa0, 0x301)
	fill3 = strs(0x65e5, 0x672c, 0x20ac, 0x2028, 0xfeff, 0xffff, 0xfffd)
	fill4 = strs(0x1f600, 0x10000, 0x10ffff)
)

// text returns exactly n bytes of comment text. block=true: must not contain "*/"; otherwise must not contain '\n' or '\r'.
// ascii=true restricts to single-byte characters.
func text(n int, next func(int) int, block, ascii bool) string {
	var b strings.Builder
	for b.Len() < n {
		r := n - b.Len()
		w := 1
		if !ascii {
			switch next(6) {
			case 0:
				w = 2
			case 1:
				w = 3
			case 2:
				w = 4
			}
		}
		if w > r {
			w = 1
		}
		var s string
		switch w {
		case 1:
			s = fill1[next(len(fill1))]
			if block && next(12) == 0 {
				s = "\n"
			}
		case 2:
			s = fill2[next(len(fill2))]
		case 3:
			s = fill3[next(len(fill3))]
		default:
			s = fill4[next(len(fill4))]
		}
		if block && s == "/" && strings.HasSuffix(b.String(), "*") {
			s = "x"
		}
		b.WriteString(s)
	}
	return b.String()
}

// Filler returns exactly n bytes of whitespace and comments (line comments end in "\n"; block comments are closed).
// ascii=true produces only single-byte characters. The result ends in whitespace or a closed comment, so any
// token may follow it; it never ends inside a line comment.
func Filler(n int, next func(int) int, ascii bool) string {
	var b strings.Builder
	for b.Len() < n {
		r := n - b.Len()
		switch next(10) {
		case 0:
			b.WriteString(" ")
		case 1:
			b.WriteString("\n")
		case 2:
			b.WriteString("\t")
		case 3:
			if r >= 2 {
				b.WriteString("\r\n")
			} else {
				b.WriteString("\n")
			}
		case 4:
			// a lone carriage return is whitespace for cedar-go; it does not start a new line
			b.WriteString("\r")
		case 5, 6, 7:
			if r < 3 {
				b.WriteString(" ")
				continue
			}
			k := r - 3
			if k > 70 {
				k = next(70)
			} else if k > 0 {
				k = next(k + 1)
			}
			b.WriteString("//" + text(k, next, false, ascii) + "\n")
		default:
			if r < 4 {
				b.WriteString(" ")
				continue
			}
			k := r - 4
			if k > 90 {
				k = next(90)
			} else if k > 0 {
				k = next(k + 1)
			}
			b.WriteString("/*" + text(k, next, true, ascii) + "*/")
		}
	}
	return b.String()
}
