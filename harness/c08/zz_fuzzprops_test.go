package c08

// Coverage-guided driving of this package's rapid properties (thorough tier; see ev/fuzz.go).

import (
	"testing"

	"verif/ev"
)

var fuzzProps = map[string]func(*testing.T){
	"FuzzPropRandom": TestRandom,
	"FuzzPropContainers": TestContainers,
}

func FuzzPropRandom(f *testing.F) { ev.FuzzProp(f, TestRandom) }
func FuzzPropContainers(f *testing.F) { ev.FuzzProp(f, TestContainers) }
