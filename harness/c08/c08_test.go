// C08: Cedar text marshalling round-trips every policy.
//
// For a policy p (built from an AST, parsed from the harness's own text rendering, or decoded from the harness's own
// JSON rendering): t1 = p.MarshalCedar() must parse; the reparsed policy p2 has the same effect, annotations (in order)
// and scope; every condition of p and p2 evaluates identically (equal value or both fail) on >= 6 environments, under
// cedar-go's evaluator (x/exp/eval.Eval on both trees, cedar.Authorize on both policies) and under the reference
// interpreter (ref.Eval on both trees as read back through conv.FromPolicy); p2.MarshalCedar() == t1 byte for byte.
// Lists (PolicyList.MarshalCedar), sets (PolicySet.MarshalCedar, lexicographic id order; NewPolicySetFromBytes
// numbering) and the streaming Encoder/Decoder must give back the same policies in the documented order.
//
// Carve-outs (check weaker than the statement):
//   - AST identity is not required (Negate(1) and the literal -1, a literal node holding a set and a set node are
//     different trees with the same meaning) - only C07 requires it, for parser-normal trees;
//   - unknown extension functions, method-style extension calls without a receiver and duplicate record keys are not
//     generated (not expressible in Cedar text);
//   - "same failure" is compared as fails / does not fail; whether ref.Eval's answer for the original tree equals
//     cedar-go's answer for the reparsed tree is recorded as a label only (that comparison is C01's subject);
//   - policy-set ids are not compared after MarshalCedar (the text form has no ids), only the order;
//   - for the JSON source, literal record values with a member "__entity" / "__extn" whose JSON form is an object are
//     not used (reserved shapes of the JSON value format; cedar-go decodes {"__entity":{"b":..}} to the zero EntityUID,
//     and the zero-value EntityUID is outside the domain, appendix C).
//
// Sensitivity (scratch copy of /repo, quick tier, one shard):
//   - NodeTypeSub right child at p instead of p+1 (a-(b-c) loses its parentheses) -> caught: meaning/eval, remarshal/bytes (TestTriples)
//   - relation children at p instead of p+1                                        -> caught: reparse/rejected (TestTriples)
//   - canMarshalAsIdent ignoring reserved words                                    -> caught: reparse/rejected (TestTriples)
//   - Pattern.MarshalCedar not escaping '*'                                        -> caught: meaning/eval (TestStringTable)
//   - PolicySet.MarshalCedar unsorted                                              -> caught: set/order
//   - rust.EscapeString not escaping '                                             -> not caught, by design: a raw ' is a
//     valid string character, so the text still parses to the same policy and re-renders identically (equivalent mutant)
package c08

import (
	"bytes"
	"encoding/json"
	"errors"
	"fmt"
	"io"
	"math"
	"sort"
	"strconv"
	"strings"
	"testing"
	"unicode"

	cedar "github.com/cedar-policy/cedar-go"
	"github.com/cedar-policy/cedar-go/types"
	xast "github.com/cedar-policy/cedar-go/x/exp/ast"
	xeval "github.com/cedar-policy/cedar-go/x/exp/eval"
	"pgregory.net/rapid"

	"verif/conv"
	"verif/ev"
	"verif/gen"
	"verif/ir"
	"verif/ref"
	"verif/render"
)

func TestMain(m *testing.M) { ev.Main(m, "C08") }

// Case: one policy, the way the cedar-go object is obtained, and the environments used to compare meaning.
type Case struct {
	Policy *ir.Policy  `json:"policy"`
	Source string      `json:"source"` // built | text | json
	Worlds []gen.World `json:"worlds"`
}

// ContainerCase: policies with ids, for the list / set / stream sub-checks.
type ContainerCase struct {
	IDs      []string     `json:"ids"`
	Policies []*ir.Policy `json:"policies"`
}

// ---------------------------------------------------------------------------------------------
// obtaining and evaluating policies

func obtain(p *ir.Policy, source string) (cp *cedar.Policy, err error) {
	defer func() {
		if r := recover(); r != nil {
			err = fmt.Errorf("panic: %v", r)
		}
	}()
	switch source {
	case "text":
		cp = &cedar.Policy{}
		if err := cp.UnmarshalCedar([]byte(render.Policy(p, render.Opts{}))); err != nil {
			return nil, err
		}
		return cp, nil
	case "json":
		cp = &cedar.Policy{}
		if err := cp.UnmarshalJSON(render.PolicyJSON(p, render.JSONOpts{})); err != nil {
			return nil, err
		}
		return cp, nil
	}
	return conv.ToPolicy(p), nil
}

func cenv(w *gen.World) xeval.Env {
	return xeval.Env{
		Entities:  conv.ToEntityMap(w.Store),
		Principal: conv.ToEntityUID(w.Req.Principal),
		Action:    conv.ToEntityUID(w.Req.Action),
		Resource:  conv.ToEntityUID(w.Req.Resource),
		Context:   conv.ToRecord(w.Req.Context.Fields),
	}
}

type result struct {
	failed bool
	v      ir.Value
	err    string
}

func (r result) String() string {
	if r.failed {
		return "error(" + r.err + ")"
	}
	return r.v.String()
}

func sameResult(a, b result) bool {
	if a.failed != b.failed {
		return false
	}
	return a.failed || ir.Equal(a.v, b.v)
}

func evalNode(n xast.IsNode, env xeval.Env) (res result) {
	defer func() {
		if r := recover(); r != nil {
			res = result{failed: true, err: fmt.Sprintf("panic: %v", r)}
		}
	}()
	v, err := xeval.Eval(n, env)
	if err != nil {
		return result{failed: true, err: err.Error()}
	}
	iv, err := conv.FromValue(v)
	if err != nil {
		return result{failed: true, err: "unreadable value: " + err.Error()}
	}
	return result{v: iv}
}

func evalRef(e *ir.Expr, w *gen.World) result {
	v, er := ref.Eval(e, ref.NewEnv(w.Store, w.Req))
	if er != 0 {
		return result{failed: true, err: er.String()}
	}
	return result{v: v}
}

type verdict struct {
	allow  bool
	errors int
	reason int
}

func authorize(p *cedar.Policy, w *gen.World) verdict {
	ps := cedar.NewPolicySet()
	ps.Add("p", p)
	dec, diag := cedar.Authorize(ps, conv.ToEntityMap(w.Store), conv.ToRequest(w.Req))
	return verdict{allow: dec == cedar.Allow, errors: len(diag.Errors), reason: len(diag.Reasons)}
}

func marshalCedar(p *cedar.Policy) (b []byte, err error) {
	defer func() {
		if r := recover(); r != nil {
			err = fmt.Errorf("panic: %v", r)
		}
	}()
	return p.MarshalCedar(), nil
}

func headEqual(a, b *ir.Policy) bool {
	if a.Permit != b.Permit || len(a.Annotations) != len(b.Annotations) {
		return false
	}
	for i := range a.Annotations {
		if a.Annotations[i] != b.Annotations[i] {
			return false
		}
	}
	return conv.EqualScope(a.Principal, b.Principal) && conv.EqualScope(a.Action, b.Action) && conv.EqualScope(a.Resource, b.Resource)
}

// roundTrip runs the single-policy oracle on cp. Returns (sub-check, message) or ("","").
func roundTrip(cp *cedar.Policy, worlds []gen.World) (string, string) {
	irp, err := conv.FromPolicy(cp)
	if err != nil {
		return "harness/unreadable", "cannot read the policy under test: " + err.Error()
	}
	t1, err := marshalCedar(cp)
	if err != nil {
		return "marshal/panic", "MarshalCedar: " + err.Error()
	}
	var cp2 cedar.Policy
	if err := cp2.UnmarshalCedar(t1); err != nil {
		return "reparse/rejected", fmt.Sprintf("MarshalCedar output does not parse: %v\ntext: %s", err, t1)
	}
	ir2, err := conv.FromPolicy(&cp2)
	if err != nil {
		return "reparse/unreadable", fmt.Sprintf("cannot read the reparsed policy: %v\ntext: %s", err, t1)
	}
	if !headEqual(irp, ir2) {
		return "reparse/head", fmt.Sprintf("effect, annotations or scope changed\ntext: %s\nbefore: %s\nafter:  %s", t1, ir.JSON(irp), ir.JSON(ir2))
	}
	if len(irp.Conds) != len(ir2.Conds) {
		return "reparse/conditions", fmt.Sprintf("%d conditions became %d\ntext: %s", len(irp.Conds), len(ir2.Conds), t1)
	}
	a1, a2 := (*xast.Policy)(cp.AST()), (*xast.Policy)(cp2.AST())
	for i := range irp.Conds {
		if irp.Conds[i].When != ir2.Conds[i].When {
			return "reparse/conditions", fmt.Sprintf("condition %d changed between when and unless\ntext: %s", i, t1)
		}
	}
	for wi := range worlds {
		w := &worlds[wi]
		env := cenv(w)
		for i := range irp.Conds {
			r1, r2 := evalNode(a1.Conditions[i].Body, env), evalNode(a2.Conditions[i].Body, env)
			ev.R.Count(1)
			if !sameResult(r1, r2) {
				return "meaning/eval", fmt.Sprintf("condition %d evaluates to %s before and %s after the text round trip (environment %d)\ntext: %s\nbefore: %s\nafter:  %s", i, r1, r2, wi, t1, irp.Conds[i].Body, ir2.Conds[i].Body)
			}
			f1, f2 := evalRef(irp.Conds[i].Body, w), evalRef(ir2.Conds[i].Body, w)
			if !sameResult(f1, f2) {
				return "meaning/ref", fmt.Sprintf("reference interpreter: condition %d evaluates to %s before and %s after the text round trip (environment %d)\ntext: %s\nbefore: %s\nafter:  %s", i, f1, f2, wi, t1, irp.Conds[i].Body, ir2.Conds[i].Body)
			}
			if sameResult(f1, r2) {
				ev.R.Label("ref-agrees-with-eval", 1)
			} else {
				ev.R.Label("ref-disagrees-with-eval", 1)
			}
			if r1.failed {
				ev.R.Label("result:error", 1)
			} else {
				ev.R.Label("result:value", 1)
			}
		}
		v1, v2 := authorize(cp, w), authorize(&cp2, w)
		if v1 != v2 {
			return "meaning/authorize", fmt.Sprintf("one-policy set decides %+v before and %+v after the text round trip (environment %d)\ntext: %s", v1, v2, wi, t1)
		}
	}
	t2, err := marshalCedar(&cp2)
	if err != nil {
		return "marshal/panic", "MarshalCedar of the reparsed policy: " + err.Error()
	}
	if !bytes.Equal(t1, t2) {
		return "remarshal/bytes", fmt.Sprintf("second rendering differs from the first\nfirst:  %s\nsecond: %s", t1, t2)
	}
	return "", ""
}

func check(c *Case) (string, string) {
	cp, err := obtain(c.Policy, c.Source)
	if err != nil {
		if c.Source == "built" {
			return "harness/build", "cannot build the policy: " + err.Error()
		}
		return "skip", err.Error() // the source codec rejected the harness rendering: subject of C07 / C09, not of this property
	}
	return roundTrip(cp, c.Worlds)
}

// ---------------------------------------------------------------------------------------------
// known findings

// goQuoteDiffers: Record.MarshalCedar writes keys with strconv.Quote; the finding concerns keys for which that differs
// from the Cedar (Rust-style) escaping used by String.MarshalCedar.
func goQuoteDiffers(k string) bool {
	return strconv.Quote(k) != string(types.String(k).MarshalCedar())
}

func isExtKind(k ir.Kind) bool {
	return k == ir.KDecimal || k == ir.KIP || k == ir.KDatetime || k == ir.KDuration
}

// nestedExtOrNegative: v is a set / record value that contains, at any depth, an extension value or a negative long.
func nestedExtOrNegative(v ir.Value) bool {
	found := false
	var walk func(x ir.Value)
	walk = func(x ir.Value) {
		if isExtKind(x.K) || (x.K == ir.KLong && x.I < 0) {
			found = true
		}
		for _, e := range x.Elems {
			walk(e)
		}
		for _, f := range x.Fields {
			walk(f.V)
		}
	}
	for _, e := range v.Elems {
		walk(e)
	}
	for _, f := range v.Fields {
		walk(f.V)
	}
	return found
}

// collectionElementParens: the first rendering writes an element of a set / record without parentheses because it comes
// from a value (Set.MarshalCedar / Record.MarshalCedar, or a literal node holding an extension value), the reparsed
// tree holds an extension-call node or a negative-literal node at that place, which the set / record node renders in
// parentheses.
func collectionElementParens(p *ir.Policy) bool {
	found := false
	for _, c := range p.Conds {
		c.Body.Walk(func(x *ir.Expr) {
			switch x.Op {
			case ir.OpLit:
				if (x.Lit.K == ir.KSet || x.Lit.K == ir.KRecord) && nestedExtOrNegative(*x.Lit) {
					found = true
				}
			case ir.OpSet, ir.OpRecord:
				for _, a := range x.Args {
					if a.Op == ir.OpLit && isExtKind(a.Lit.K) {
						found = true
					}
				}
			}
		})
	}
	return found
}

// negateZero: Negate applied directly to the literal 0 is rendered "-0", which parses to the literal 0 and renders "0".
func negateZero(p *ir.Policy) bool {
	found := false
	for _, c := range p.Conds {
		c.Body.Walk(func(x *ir.Expr) {
			if x.Op == ir.OpNeg && x.Args[0].Op == ir.OpLit && x.Args[0].Lit.K == ir.KLong && x.Args[0].Lit.I == 0 {
				found = true
			}
		})
	}
	return found
}

func knownKey(p *ir.Policy) string {
	key := ""
	if ev.KnownOpen("C08", "collection-element-parens") && collectionElementParens(p) {
		return "collection-element-parens"
	}
	if ev.KnownOpen("C08", "negate-zero-literal") && negateZero(p) {
		return "negate-zero-literal"
	}
	if ev.KnownOpen("C08", "record-key-quote") {
		gen.PolicyStrings(p, func(pos, s string) {
			if pos == "value-record-key" && goQuoteDiffers(s) {
				key = "record-key-quote"
			}
		})
	}
	if key == "" && ev.KnownOpen("C08", "ipv4-mapped-string") {
		gen.PolicyValues(p, func(v ir.Value) {
			if gen.IsMappedIP(v) {
				key = "ipv4-mapped-string"
			}
		})
	}
	return key
}

// ---------------------------------------------------------------------------------------------
// bookkeeping

func charClasses(p *ir.Policy) []string {
	seen := map[string]bool{}
	gen.PolicyStrings(p, func(pos, s string) {
		first := true
		for _, r := range s {
			switch {
			case r == 0xfffd:
				seen["char:ufffd"] = true
			case r < 0x20 || r == 0x7f:
				seen["char:control"] = true
			case r == '"' || r == '\'' || r == '\\':
				seen["char:quote"] = true
			case r == '*':
				seen["char:star"] = true
			case unicode.Is(unicode.Mn, r) || unicode.Is(unicode.Me, r):
				if first {
					seen["char:combining-first"] = true
				} else {
					seen["char:combining-continuation"] = true
				}
			case r >= 0x80 && !unicode.IsPrint(r):
				seen["char:non-printable"] = true
			case r >= 0x80:
				seen["char:non-ascii-printable"] = true
			}
			first = false
		}
		if s == "" {
			seen["char:empty"] = true
		}
		if render.Reserved[s] {
			seen["char:reserved-word"] = true
		}
	})
	var out []string
	for k := range seen {
		out = append(out, k)
	}
	sort.Strings(out)
	return out
}

func run(c *Case, class string, fail func(sub, msg string), labels ...string) bool {
	if c.Source == "json" && gen.HasReservedKeyObject(c.Policy) {
		// not a policy of the JSON format: the value format reserves {"__entity": {..}} / {"__extn": {..}} (appendix C)
		ev.R.Label("excluded-domain:reserved-key-record", 1)
		return true
	}
	if k := knownKey(c.Policy); k != "" {
		ev.R.Excluded(k)
		return true
	}
	ev.Watch("roundtrip", func() any { return c })
	sub, msg := check(c)
	ev.Unwatch()
	if sub == "skip" {
		ev.R.Label("source-rejected:"+c.Source, 1)
		if len(msg) > 90 {
			msg = msg[:90]
		}
		ev.R.Note("source " + c.Source + " rejected the harness rendering (subject of C07/C09): " + msg)
		return true
	}
	parens, escapes := render.Stats(c.Policy)
	ls := append([]string{class, "src:" + c.Source}, labels...)
	ls = append(ls, charClasses(c.Policy)...)
	if parens > 0 {
		ls = append(ls, "needs-parens")
	}
	if escapes > 0 {
		ls = append(ls, "needs-escape")
	}
	ev.R.Case(ir.Hash(struct {
		P *ir.Policy
		S string
	}{c.Policy, c.Source}), parens > 0 || escapes > 0, ls...)
	if ev.R.WantSample(class) {
		if cp, err := obtain(c.Policy, c.Source); err == nil {
			t, _ := marshalCedar(cp)
			ev.R.Sample(class, map[string]any{"source": c.Source, "marshalled": string(t)})
		}
	}
	if sub != "" {
		ev.R.Violation(sub, c, msg)
		fail(sub, msg)
		return false
	}
	return true
}

func tableFail(t *testing.T) func(sub, msg string) {
	n := 0
	return func(sub, msg string) {
		n++
		if n <= 15 {
			t.Errorf("C08/%s: %s", sub, msg)
		}
	}
}

// mine splits the deterministic tables over the shards.
func mine(i int) bool { return i%ev.NShards == ev.Shard }

func condPolicy(e *ir.Expr) *ir.Policy {
	p := ir.NewPolicy(true)
	p.Conds = []ir.Cond{{When: true, Body: e}}
	return p
}

// ---------------------------------------------------------------------------------------------
// exhaustive tables

// TestTriples: every (parent kind, operand position, child kind), including literal nodes holding composite and
// extension values and Negate over literals, as the body of a one-condition policy, from all three sources.
func TestTriples(t *testing.T) {
	fail := tableFail(t)
	worlds := gen.FixedWorlds()
	count := 0
	for _, slot := range gen.Slots() {
		for _, sh := range gen.Shapes() {
			e := slot.Build(sh.Build())
			count++
			if !mine(count) {
				continue
			}
			p := condPolicy(e)
			run(&Case{Policy: p, Source: "built", Worlds: worlds}, "triple", fail, "slot:"+slot.Name, "child:"+sh.Name)
			run(&Case{Policy: p, Source: "json", Worlds: worlds}, "triple", fail)
			if gen.IsParserNormal(p) {
				run(&Case{Policy: p, Source: "text", Worlds: worlds}, "triple", fail)
			}
		}
	}
	// arithmetic / logical grandchildren: (a op (b op c)) op d and friends with concrete numbers, so that a lost
	// parenthesis changes the value
	ops := []ir.Op{ir.OpAdd, ir.OpSub, ir.OpMul}
	L := func(i int64) *ir.Expr { return ir.Lit(ir.Long(i)) }
	for _, o1 := range ops {
		for _, o2 := range ops {
			for _, o3 := range ops {
				for _, e := range []*ir.Expr{
					ir.Bin(o1, L(7), ir.Bin(o2, L(5), ir.Bin(o3, L(3), L(2)))),
					ir.Bin(o1, ir.Bin(o2, ir.Bin(o3, L(7), L(5)), L(3)), L(2)),
					ir.Bin(o1, ir.Bin(o2, L(7), L(5)), ir.Bin(o3, L(3), L(2))),
					ir.Bin(o1, L(-7), ir.Un(ir.OpNeg, ir.Bin(o2, L(-5), ir.Un(ir.OpNeg, L(3))))),
				} {
					count++
					if !mine(count) {
						continue
					}
					run(&Case{Policy: condPolicy(ir.Bin(ir.OpEq, e, L(0))), Source: "built", Worlds: worlds[:1]}, "triple", fail)
				}
			}
		}
	}
	// the same nestings over the int64 boundary: regrouping a + (b - c) into (a + b) - c keeps the mathematical value
	// but moves the overflow, so a parenthesis lost between operators of one precedence level only shows here
	bnd := []int64{math.MaxInt64, math.MinInt64, 1, -1, 2, 0}
	for _, o1 := range ops {
		for _, o2 := range ops {
			for _, a := range bnd {
				for _, b := range bnd {
					for _, c := range bnd {
						for _, e := range []*ir.Expr{ir.Bin(o1, L(a), ir.Bin(o2, L(b), L(c))), ir.Bin(o2, ir.Bin(o1, L(a), L(b)), L(c))} {
							count++
							if !mine(count) {
								continue
							}
							run(&Case{Policy: condPolicy(ir.Bin(ir.OpGt, e, L(0))), Source: "built", Worlds: worlds[:1]}, "triple-boundary", fail)
						}
					}
				}
			}
		}
	}
	B := func(b bool) *ir.Expr { return ir.Lit(ir.Bool(b)) }
	for m := 0; m < 16; m++ {
		a, b, c, d := B(m&1 != 0), B(m&2 != 0), B(m&4 != 0), B(m&8 != 0)
		for _, e := range []*ir.Expr{
			ir.Bin(ir.OpAnd, ir.Bin(ir.OpOr, a, b), ir.Bin(ir.OpOr, c, d)), ir.Bin(ir.OpOr, ir.Bin(ir.OpAnd, a, b), ir.Bin(ir.OpAnd, c, d)),
			ir.Bin(ir.OpOr, a, ir.Bin(ir.OpAnd, b, ir.Bin(ir.OpOr, c, d))), ir.Bin(ir.OpAnd, a, ir.Bin(ir.OpAnd, b, ir.Bin(ir.OpOr, c, d))),
			ir.Un(ir.OpNot, ir.Bin(ir.OpAnd, a, ir.Un(ir.OpNot, ir.Bin(ir.OpOr, b, c)))), ir.If(ir.If(a, b, c), ir.Bin(ir.OpOr, c, d), ir.If(b, c, d)),
			ir.Bin(ir.OpEq, ir.Bin(ir.OpEq, a, b), ir.Bin(ir.OpNe, c, d)), ir.Bin(ir.OpAnd, ir.If(a, b, c), d), ir.Bin(ir.OpOr, d, ir.If(a, b, c)),
		} {
			count++
			if !mine(count) {
				continue
			}
			run(&Case{Policy: condPolicy(e), Source: "built", Worlds: worlds[:1]}, "triple", fail)
		}
	}
	if !ev.First() {
		return
	}
	ev.R.Space("(parent kind, operand position, child kind) triples incl. value nodes, x {built, json, text}; value-sensitive arithmetic and boolean nestings", count)
}

// TestUnaryChains: 1..8 directly nested prefix operators (every !/- mix up to length 4, the uniform and alternating ones
// beyond) over a variable, literals of both signs, a member access and a product. The published grammar allows four
// prefix operators per Unary; cedar-go's printer writes a nested chain as a bare run, which its parser has to take back.
func TestUnaryChains(t *testing.T) {
	if !ev.First() {
		return
	}
	fail := tableFail(t)
	worlds := gen.FixedWorlds()
	count := 0
	leaves := []func() *ir.Expr{func() *ir.Expr { return ir.Var("context") }, func() *ir.Expr { return ir.Lit(ir.Long(5)) }, func() *ir.Expr { return ir.Lit(ir.Long(-5)) },
		func() *ir.Expr { return ir.Lit(ir.Bool(true)) }, func() *ir.Expr { return ir.Access(ir.Var("context"), "k") }, func() *ir.Expr { return ir.Bin(ir.OpMul, ir.Lit(ir.Long(2)), ir.Lit(ir.Long(-3))) },
		// member access on an integer literal, with keys the printer writes as .id and as ["..."]: `-5.a` / `-5["a b"]` must
		// come back as the negation of the access, not as an access on the literal -5
		func() *ir.Expr { return ir.Access(ir.Lit(ir.Long(5)), "a") }, func() *ir.Expr { return ir.Access(ir.Lit(ir.Long(5)), "a b") }, func() *ir.Expr { return ir.Access(ir.Lit(ir.Long(0)), "if") },
		func() *ir.Expr { return ir.Access(ir.Access(ir.Lit(ir.Long(7)), ""), "c") }, func() *ir.Expr { return ir.Has(ir.Lit(ir.Long(5)), "a b") },
		func() *ir.Expr { return ir.Ext("isIpv4", ir.Lit(ir.Long(5))) }}
	for _, leaf := range leaves {
		for n := 1; n <= 8; n++ {
			for mask := 0; mask < 1<<n; mask++ {
				if n > 4 && mask != 0 && mask != 1<<n-1 && mask != 0x55&(1<<n-1) && mask != 0xaa&(1<<n-1) && mask != 1 && mask != 1<<(n-1) {
					continue
				}
				e := leaf()
				for i := 0; i < n; i++ {
					if mask>>i&1 == 1 {
						e = ir.Un(ir.OpNeg, e)
					} else {
						e = ir.Un(ir.OpNot, e)
					}
				}
				count++
				p := condPolicy(e)
				run(&Case{Policy: p, Source: "built", Worlds: worlds}, "unary-chain", fail, fmt.Sprintf("chain-length:%d", n))
				run(&Case{Policy: p, Source: "json", Worlds: worlds}, "unary-chain", fail)
			}
		}
	}
	ev.R.Space("prefix-operator chains (length 1..8) over variable / literals / member / product, built and from JSON", 2*count)
}

// TestStringTable: single characters of every class in every string position.
func TestStringTable(t *testing.T) {
	fail := tableFail(t)
	worlds := gen.FixedWorlds()[:2]
	var runes []rune
	for r := rune(0); r < rune(ev.Pick(0x500, 0x3100)); r++ {
		runes = append(runes, r)
	}
	runes = append(runes, 0x200b, 0x200d, 0x2028, 0x2029, 0x20d0, 0xd7ff, 0xe000, 0xfe00, 0xfeff, 0xfffc, 0xfffd, 0xfffe, 0xffff, 0x10000, 0x1f600, 0xe0100, 0x10fffd, 0x10ffff)
	count := 0
	ctx := ir.Var("context")
	for _, r := range runes {
		if r >= 0xd800 && r <= 0xdfff {
			continue
		}
		for _, s := range []string{string(r), "a" + string(r), string(r) + string(r)} {
			p := ir.NewPolicy(true)
			p.Annotations = []ir.Annotation{{K: "id", V: s}}
			p.Principal = ir.ScopeEq(ir.Ent("T0", s))
			p.Conds = []ir.Cond{
				{When: true, Body: ir.Bin(ir.OpEq, ir.Lit(ir.Str(s)), ir.Access(ctx, s))},
				{When: false, Body: ir.Bin(ir.OpAnd, ir.Has(ir.RecE([]string{s}, []*ir.Expr{ir.Lit(ir.Long(1))}), s), ir.Like(ir.Lit(ir.Str(s+"x")), []ir.PatElem{{Lit: s}, {Wild: true}}))},
				{When: true, Body: ir.Bin(ir.OpEq, ir.Lit(ir.Ent("T1", s)), ir.Access(ir.Lit(ir.Rec(ir.F(s, ir.Set(ir.Str(s))))), s))},
				{When: true, Body: ir.Like(ir.Lit(ir.Str(s)), []ir.PatElem{{Lit: s}})},
			}
			count++
			if !mine(count) {
				continue
			}
			w := append([]gen.World{}, worlds...)
			w[0].Req.Context = ir.Rec(ir.F(s, ir.Str(s)))
			run(&Case{Policy: p, Source: "built", Worlds: w}, "string-table", fail)
		}
	}
	// star and backslash in patterns
	for _, lit := range []string{"*", "a*b", "\\*", "**", "\\", "*\\", "\"*\""} {
		for _, subj := range []string{lit, "a", "ab", "aXb", "*", "\\*", ""} {
			for _, pat := range [][]ir.PatElem{{{Lit: lit}}, {{Lit: lit}, {Wild: true}}, {{Wild: true}, {Lit: lit}}, {{Lit: "a"}, {Wild: true}, {Lit: lit}}} {
				count++
				if !mine(count) {
					continue
				}
				run(&Case{Policy: condPolicy(ir.Like(ir.Lit(ir.Str(subj)), pat)), Source: "built", Worlds: worlds[:1]}, "string-table", fail)
			}
		}
	}
	if !ev.First() {
		return
	}
	ev.R.Space("code points (all below a bound plus specials) alone / after a letter / doubled, in annotation, scope id, string, attribute, record key (node and value), entity id, pattern; star forms in patterns", count)
}

// ---------------------------------------------------------------------------------------------
// random

func valOpts() gen.ValOpts { return gen.ValOpts{Keys: gen.KeysMixed, MappedIP: true} }

func genCase(rt *rapid.T, maxDepth int) *Case {
	o := gen.TreeOpts{Keys: gen.KeysMixed}
	src := gen.Pick(rt, []string{"built", "built", "built", "json", "text"}, "source")
	if src == "text" {
		o.ParserNormal = true
	}
	worlds := gen.CodecWorlds(rt, 6, valOpts())
	p := gen.HostilePolicy(rt, o, 3, func() *ir.Expr {
		return gen.CodecBody(rt, &worlds[0], rapid.IntRange(1, maxDepth).Draw(rt, "depth"), o)
	})
	return &Case{Policy: p, Source: src, Worlds: worlds}
}

func TestRandom(t *testing.T) {
	ev.SetChecks(ev.Scale(9000, 900000))
	maxDepth := ev.Pick(4, 6)
	ev.Check(t, func(rt *rapid.T) {
		c := genCase(rt, maxDepth)
		if !run(c, "random", func(string, string) {}) {
			rt.Fatalf("C08/random: the text rendering of a policy does not parse back to an equivalent policy")
		}
	})
}

// ---------------------------------------------------------------------------------------------
// containers

func reparsedAlone(cp *cedar.Policy) (*ir.Policy, []byte, error) {
	t1, err := marshalCedar(cp)
	if err != nil {
		return nil, nil, err
	}
	var cp2 cedar.Policy
	if err := cp2.UnmarshalCedar(t1); err != nil {
		return nil, t1, err
	}
	p2, err := conv.FromPolicy(&cp2)
	return p2, t1, err
}

func fromList(pl cedar.PolicyList) ([]*ir.Policy, error) {
	var out []*ir.Policy
	for _, cp := range pl {
		p, err := conv.FromPolicy(cp)
		if err != nil {
			return nil, err
		}
		out = append(out, p)
	}
	return out, nil
}

func checkContainers(c *ContainerCase) (sub, msg string) {
	defer func() {
		if r := recover(); r != nil {
			sub, msg = "container/panic", fmt.Sprint(r)
		}
	}()
	n := len(c.Policies)
	cps := make([]*cedar.Policy, n)
	want := make([]*ir.Policy, n) // each policy after its own text round trip
	texts := make([][]byte, n)
	for i, p := range c.Policies {
		cps[i] = conv.ToPolicy(p)
		w, t1, err := reparsedAlone(cps[i])
		if err != nil {
			return "skip", err.Error() // single-policy failure: reported by the single-policy sub-checks
		}
		want[i], texts[i] = w, t1
	}
	same := func(what string, got []*ir.Policy, order []int, doc []byte) (string, string) {
		if len(got) != len(order) {
			return what + "/length", fmt.Sprintf("%d policies became %d\ntext: %s", len(order), len(got), doc)
		}
		for k, i := range order {
			if !conv.EqualPolicy(want[i], got[k]) {
				return what + "/order", fmt.Sprintf("position %d: expected the policy with id %q\ntext: %s\nwant: %s\ngot:  %s", k, c.IDs[i], doc, ir.JSON(want[i]), ir.JSON(got[k]))
			}
		}
		return "", ""
	}
	ident := make([]int, n)
	for i := range ident {
		ident[i] = i
	}
	// PolicyList
	doc := cedar.PolicyList(cps).MarshalCedar()
	pl, err := cedar.NewPolicyListFromBytes("list.cedar", doc)
	if err != nil {
		return "list/rejected", fmt.Sprintf("PolicyList.MarshalCedar output does not parse: %v\ntext: %s", err, doc)
	}
	got, err := fromList(pl)
	if err != nil {
		return "list/unreadable", err.Error()
	}
	if s, m := same("list", got, ident, doc); s != "" {
		return s, m
	}
	if doc2 := pl.MarshalCedar(); !bytes.Equal(doc, doc2) {
		return "list/bytes", fmt.Sprintf("second rendering of the list differs\nfirst:  %s\nsecond: %s", doc, doc2)
	}
	// NewPolicySetFromBytes numbers the policies of a document policy0, policy1, ...
	ps0, err := cedar.NewPolicySetFromBytes("list.cedar", doc)
	if err != nil {
		return "set/from-bytes", fmt.Sprintf("NewPolicySetFromBytes rejects the list document: %v", err)
	}
	cnt := 0
	for range ps0.All() {
		cnt++
	}
	if cnt != n {
		return "set/from-bytes", fmt.Sprintf("NewPolicySetFromBytes yields %d policies for a document of %d", cnt, n)
	}
	for i := 0; i < n; i++ {
		q := ps0.Get(cedar.PolicyID(fmt.Sprintf("policy%d", i)))
		if q == nil {
			return "set/from-bytes", fmt.Sprintf("NewPolicySetFromBytes: id policy%d missing", i)
		}
		qi, err := conv.FromPolicy(q)
		if err != nil || !conv.EqualPolicy(want[i], qi) {
			return "set/from-bytes", fmt.Sprintf("NewPolicySetFromBytes: policy%d is not the %d-th policy of the document\ntext: %s", i, i, doc)
		}
	}
	// PolicySet.MarshalCedar: lexicographic id order (later Add of a duplicate id replaces)
	ps := cedar.NewPolicySet()
	last := map[string]int{}
	for i, id := range c.IDs {
		if i > 0 && i == (len(c.IDs)+1)/2 {
			// the set is rendered once half-way through its construction: what it renders later must describe the set
			// as it is then, not as it was at the first rendering
			_ = ps.MarshalCedar()
			if i >= 2 {
				ps.Remove(cedar.PolicyID(c.IDs[0]))
				ps.Add(cedar.PolicyID(c.IDs[0]), cps[last[c.IDs[0]]])
			}
		}
		ps.Add(cedar.PolicyID(id), cps[i])
		last[id] = i
	}
	var ids []string
	for id := range last {
		ids = append(ids, id)
	}
	sort.Strings(ids)
	order := make([]int, len(ids))
	for k, id := range ids {
		order[k] = last[id]
	}
	sdoc := ps.MarshalCedar()
	if again := ps.MarshalCedar(); !bytes.Equal(sdoc, again) {
		return "set/bytes", fmt.Sprintf("PolicySet.MarshalCedar renders the unchanged set differently the second time\nfirst: %s\nsecond: %s", sdoc, again)
	}
	spl, err := cedar.NewPolicyListFromBytes("set.cedar", sdoc)
	if err != nil {
		return "set/rejected", fmt.Sprintf("PolicySet.MarshalCedar output does not parse: %v\ntext: %s", err, sdoc)
	}
	sgot, err := fromList(spl)
	if err != nil {
		return "set/unreadable", err.Error()
	}
	if s, m := same("set", sgot, order, sdoc); s != "" {
		return s, m
	}
	// every policy's own rendering must occur in the set document, in id order (separators are not asserted)
	rest := sdoc
	for _, i := range order {
		k := bytes.Index(rest, texts[i])
		if k < 0 {
			return "set/bytes", fmt.Sprintf("PolicySet.MarshalCedar does not contain the rendering of policy %q at its place\ndocument: %s\npolicy: %s", c.IDs[i], sdoc, texts[i])
		}
		rest = rest[k+len(texts[i]):]
	}
	// Encoder -> Decoder
	var buf bytes.Buffer
	enc := cedar.NewEncoder(&buf)
	for i := range cps {
		if err := enc.Encode(cps[i]); err != nil {
			return "stream/encode", err.Error()
		}
	}
	stream := append([]byte{}, buf.Bytes()...)
	dec := cedar.NewDecoder(&buf)
	// decode the whole stream first and look at the policies afterwards: a decoder that reuses storage between Decode
	// calls would otherwise go unnoticed
	var decoded []*cedar.Policy
	for {
		q := new(cedar.Policy)
		err := dec.Decode(q)
		if errors.Is(err, io.EOF) {
			break
		}
		if err != nil {
			return "stream/rejected", fmt.Sprintf("Decoder rejects Encoder output: %v\ntext: %s", err, stream)
		}
		decoded = append(decoded, q)
		if len(decoded) > n+1 {
			break
		}
	}
	var dgot []*ir.Policy
	for _, q := range decoded {
		qi, err := conv.FromPolicy(q)
		if err != nil {
			return "stream/unreadable", err.Error()
		}
		dgot = append(dgot, qi)
	}
	if s, m := same("stream", dgot, ident, stream); s != "" {
		return s, m
	}
	return "", ""
}

var idPool = []string{"policy0", "policy1", "policy2", "policy10", "policy11", "policy9", "Policy1", "policy", "", " ", "a", "B", "é", "\n", "policy01", "10", "9", "~", "\U0001F600", "a\"b"}

func runContainers(c *ContainerCase, class string, fail func(sub, msg string)) bool {
	for _, p := range c.Policies {
		if k := knownKey(p); k != "" {
			ev.R.Excluded(k)
			return true
		}
	}
	ev.Watch("container", func() any { return c })
	sub, msg := checkContainers(c)
	ev.Unwatch()
	if sub == "skip" {
		ev.R.Label("container-skipped", 1)
		return true
	}
	nt := false
	sorted := sort.SliceIsSorted(c.IDs, func(i, j int) bool { return c.IDs[i] < c.IDs[j] })
	if len(c.IDs) >= 2 && !sorted {
		nt = true
	}
	ev.R.Case(ir.Hash(c), nt, class, fmt.Sprintf("container-len:%d", len(c.IDs)))
	if sub != "" {
		ev.R.Violation(sub, c, msg)
		fail(sub, msg)
		return false
	}
	return true
}

// TestContainerTable: id sets whose lexicographic order differs from numeric / insertion order.
func TestContainerTable(t *testing.T) {
	if !ev.First() {
		return
	}
	fail := tableFail(t)
	mk := func(ids ...string) *ContainerCase {
		c := &ContainerCase{IDs: ids}
		for i := range ids {
			p := ir.NewPolicy(i%2 == 0)
			p.Annotations = []ir.Annotation{{K: "n", V: strconv.Itoa(i)}}
			p.Conds = []ir.Cond{{When: true, Body: ir.Bin(ir.OpEq, ir.Var("context"), ir.Lit(ir.Long(int64(i))))}}
			c.Policies = append(c.Policies, p)
		}
		return c
	}
	var twelve []string
	for i := 0; i < 12; i++ {
		twelve = append(twelve, fmt.Sprintf("policy%d", i))
	}
	rev := append([]string{}, twelve...)
	sort.Sort(sort.Reverse(sort.StringSlice(rev)))
	cases := []*ContainerCase{mk(), mk("a"), mk("policy10", "policy2"), mk("policy2", "policy10"), mk(twelve...), mk(rev...), mk("b", "a", "B", "A", "", " "), mk("é", "z", "Z", "\U0001F600", "~"),
		mk("a", "a"), mk("x", "y", "x"), mk("10", "9", "1", "01"), mk(idPool...)}
	for _, c := range cases {
		runContainers(c, "container-table", fail)
	}
	ev.R.Space("hand-made id sets (numeric vs lexicographic order, duplicates, empty and non-ASCII ids)", len(cases))
}

func TestContainers(t *testing.T) {
	ev.SetChecks(ev.Scale(1500, 150000))
	ev.Check(t, func(rt *rapid.T) {
		o := gen.TreeOpts{Keys: gen.KeysMixed}
		n := rapid.IntRange(0, 6).Draw(rt, "npol")
		c := &ContainerCase{}
		w := gen.GenWorld(rt, 3, valOpts())
		for i := 0; i < n; i++ {
			id := gen.Pick(rt, idPool, "id")
			if gen.Chance(rt, 20, "hostileid") {
				id = gen.HostileString(rt, o)
			}
			c.IDs = append(c.IDs, id)
			c.Policies = append(c.Policies, gen.HostilePolicy(rt, o, 2, func() *ir.Expr { return gen.CodecBody(rt, &w, rapid.IntRange(0, 3).Draw(rt, "depth"), o) }))
		}
		if !runContainers(c, "containers", func(string, string) {}) {
			rt.Fatalf("C08/containers: a list, set or stream of policies does not parse back to the same policies in the documented order")
		}
	})
}

// ---------------------------------------------------------------------------------------------

func TestKnown(t *testing.T) {
	if !ev.First() {
		return
	}
	worlds := gen.FixedWorlds()[:1]
	if ev.KnownOpen("C08", "record-key-quote") {
		c := &Case{Policy: condPolicy(ir.Lit(ir.Rec(ir.F("\a", ir.Long(1))))), Source: "built", Worlds: worlds}
		if sub, msg := check(c); sub != "" {
			ev.R.KnownFinding("record-key-quote", "literal record value with key \"\\a\": "+firstLine(msg))
		} else {
			c := &Case{Policy: condPolicy(ir.Lit(ir.Rec(ir.F("'", ir.Long(1))))), Source: "built", Worlds: worlds}
			if sub, msg := check(c); sub != "" {
				ev.R.KnownFinding("record-key-quote", "literal record value with key \"'\": "+firstLine(msg))
			}
		}
	}
	if ev.KnownOpen("C08", "collection-element-parens") {
		c := &Case{Policy: condPolicy(ir.Lit(ir.Set(ir.Decimal(10000)))), Source: "built", Worlds: worlds}
		if sub, msg := check(c); sub != "" {
			ev.R.KnownFinding("collection-element-parens", "literal set value [decimal(\"1.0\")]: "+strings.ReplaceAll(msg, "\n", " | "))
		}
	}
	if ev.KnownOpen("C08", "negate-zero-literal") {
		c := &Case{Policy: condPolicy(ir.Un(ir.OpNeg, ir.Lit(ir.Long(0)))), Source: "built", Worlds: worlds}
		if sub, msg := check(c); sub != "" {
			ev.R.KnownFinding("negate-zero-literal", "Negate(Long(0)): "+strings.ReplaceAll(msg, "\n", " | "))
		}
	}
	if ev.KnownOpen("C08", "ipv4-mapped-string") {
		c := &Case{Policy: condPolicy(ir.Ext("isIpv6", ir.Lit(gen.IPMappedPool[2]))), Source: "built", Worlds: worlds}
		if sub, msg := check(c); sub != "" {
			ev.R.KnownFinding("ipv4-mapped-string", "literal ip value ::ffff:102:304: "+firstLine(msg))
		}
	}
}

func firstLine(s string) string {
	if i := strings.IndexByte(s, '\n'); i >= 0 {
		return s[:i]
	}
	return s
}

func TestReplay(t *testing.T) {
	rf, ok, err := ev.LoadReplay()
	if !ok {
		t.Skip("no replay requested")
	}
	if err != nil {
		t.Fatal(err)
	}
	if ev.ReplayFuzz(t, rf, fuzzProps, fuzzRaw) {
		return
	}
	var sub, msg string
	var cs any
	switch strings.Split(rf.Sub, "/")[0] {
	case "list", "set", "stream", "container":
		var c ContainerCase
		if err := json.Unmarshal(rf.Case, &c); err != nil {
			t.Fatalf("cannot decode replay case: %v", err)
		}
		sub, msg = checkContainers(&c)
		cs = &c
	default:
		var c Case
		if err := json.Unmarshal(rf.Case, &c); err != nil || c.Policy == nil {
			t.Fatalf("cannot decode replay case: %v", err)
		}
		if len(c.Worlds) == 0 {
			c.Worlds = gen.FixedWorlds()
		}
		sub, msg = check(&c)
		cs = &c
	}
	if sub != "" && sub != "skip" {
		ev.R.Violation(sub, cs, msg)
		t.Fatalf("C08 replay %s: %s", sub, msg)
	}
}
