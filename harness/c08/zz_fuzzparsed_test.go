package c08

// Byte-level fuzz target over Cedar policy texts (thorough tier; see fzp): whatever cedar-go's parser accepts is put
// through this property's ordinary oracle.

import (
	"testing"

	"verif/fzp"
	"verif/gen"
	"verif/ir"
)

func useParsed(p *ir.Policy, text string) bool {
	ok := true
	for _, src := range []string{"built", "text", "json"} {
		if !run(&Case{Policy: p, Source: src, Worlds: gen.FixedWorlds()}, "fuzz-parsed", func(string, string) {}) {
			ok = false
		}
	}
	return ok
}

var fuzzRaw = map[string]func(*testing.T, []byte){
	"FuzzParsedText": fzp.Target(useParsed, "C08/fuzz-parsed: the oracle fails on a policy parsed from fuzzed text"),
}

func FuzzParsedText(f *testing.F) { fzp.Run(f, fuzzRaw["FuzzParsedText"]) }
