// C20: policy containers behave as an id-keyed map over any history of operations.
//
// A rapid state machine (t.Repeat) drives two live PolicySets and their models (map id -> pool policy + expected position)
// through Add (new / replace / same *Policy under two ids / object taken from the other set), Remove, Get, Map (then the
// returned map is mutated), All (early break), copy via Map + re-Add, MarshalCedar -> NewPolicySetFromBytes,
// MarshalJSON -> UnmarshalJSON (fresh target, and a non-empty scratch target), NewPolicySetFromBytes(name, generated document).
// After EVERY step both sets are compared with their models: Get for every id, All(), and cedar.Authorize over the whole
// request universe (decision, reason ids, error ids, positions) against the reference authorizer applied to the model.
// Pool policies have pairwise different outcome vectors over the request universe (self-checked), so a stale, missing or
// misplaced entry changes a decision, a reason set or an error set.
//
// Carve-outs (check weaker than the statement):
//   - UnmarshalJSON into a non-empty set: only "every id of the source is present and correct" is asserted; whether old
//     entries survive (merge vs replace) is recorded as a label (the statement is silent);
//   - positions of policies that went through JSON are not asserted; after MarshalCedar -> reload the offsets come from the
//     harness' own lexer over the marshalled text (if it cannot lex the text only Filename is asserted);
//   - Get/Map/All are compared by content (IR), not by pointer identity;
//   - the zero value PolicySet{} is used only as the receiver of UnmarshalJSON (the documented way to decode one).
//
// Sensitivity (scratch copy of /repo, `go test ./c20/` = quick tier, one shard; all five caught, each within ~1 s):
//
//	M1 policy_set.go Remove: `delete` dropped                        -> state/get after a 2-step history (add, remove); replay reproduces
//	M2 policy_set.go Add: returns `exists` instead of `!exists`      -> add/return (1 step)
//	M3 policy_set.go Map: returns the internal map                   -> state/all, state/get after map-mutate
//	M4 policy_set.go NewPolicySetFromBytes: ids start at policy1     -> state/get, state/position after load; marshal-cedar/order
//	M5 policy_set.go MarshalCedar: ids not sorted                    -> marshal-cedar/order (TestHistories and TestSortedMarshal)
//	not tried: UnmarshalJSON merging instead of replacing (not asserted by design, label json-into-nonempty:*)
package c20

import (
	"encoding/json"
	"flag"
	"fmt"
	"sort"
	"strings"
	"testing"

	cedar "github.com/cedar-policy/cedar-go"
	"pgregory.net/rapid"

	"verif/c18doc"
	"verif/conv"
	"verif/ev"
	"verif/ir"
	"verif/ref"
	"verif/render"
)

func TestMain(m *testing.M) { ev.Main(m, "C20") }

// ---------------------------------------------------------------------------------------------
// pool, entities, request universe

func ent(t, id string) ir.Value { return ir.Ent(t, id) }

func P(k string) ir.Value { return ent("P", k) }

func when(p *ir.Policy, e *ir.Expr) *ir.Policy {
	p.Conds = append(p.Conds, ir.Cond{When: true, Body: e})
	return p
}

func scoped(permit bool, principal ir.Scope) *ir.Policy {
	p := ir.NewPolicy(permit)
	p.Principal = principal
	return p
}

var ctx = ir.Var("context")

var pool = func() []*ir.Policy {
	hasAnd := func(k string, e *ir.Expr) *ir.Expr { return ir.Bin(ir.OpAnd, ir.Has(ctx, k), e) }
	p6 := scoped(false, ir.ScopeEq(P("6")))
	p6.Action = ir.ScopeEq(ent("Action", "view"))
	p6.Annotations = []ir.Annotation{{K: "id", V: "six"}}
	p6.Conds = []ir.Cond{{When: false, Body: ir.Lit(ir.Bool(false))}}
	p9 := scoped(true, ir.ScopeIs("P"))
	p9.Action = ir.ScopeInSet([]ir.Value{ent("Action", "view"), ent("Action", "edit")})
	when(p9, hasAnd("h", ir.Like(ir.Access(ctx, "h"), []ir.PatElem{{Lit: "a"}, {Wild: true}})))
	return []*ir.Policy{
		scoped(true, ir.ScopeEq(P("0"))),
		scoped(false, ir.ScopeEq(P("1"))),
		when(scoped(true, ir.ScopeEq(P("2"))), ir.Bin(ir.OpEq, ir.Bin(ir.OpAdd, ir.Access(ctx, "x"), ir.Lit(ir.Long(1))), ir.Lit(ir.Long(2)))),
		when(ir.NewPolicy(false), hasAnd("f", ir.Access(ctx, "f"))),
		when(ir.NewPolicy(true), hasAnd("g", ir.Access(ctx, "g"))),
		when(scoped(true, ir.ScopeEq(P("5"))), ir.Bin(ir.OpEq, ir.Bin(ir.OpAdd, ir.Lit(ir.Long(1)), ir.Lit(ir.Str("a"))), ir.Lit(ir.Long(2)))),
		p6,
		scoped(true, ir.ScopeIn(ent("G", "grp"))),
		when(scoped(false, ir.ScopeEq(P("8"))), ir.Bin(ir.OpLt, ir.Access(ctx, "x"), ir.Lit(ir.Long(0)))),
		p9,
	}
}()

var store = ir.Store{
	{UID: ent("G", "grp")},
	{UID: P("7"), Parents: []ir.Value{ent("G", "grp")}},
	{UID: P("0")}, {UID: P("1")},
}

var requests = func() []ir.Request {
	var out []ir.Request
	view := ent("Action", "view")
	res := ent("R", "r")
	for k := 0; k <= 8; k++ {
		out = append(out, ir.Request{Principal: P(fmt.Sprint(k)), Action: view, Resource: res, Context: ir.Rec()})
		out = append(out, ir.Request{Principal: P(fmt.Sprint(k)), Action: view, Resource: res, Context: ir.Rec(ir.F("x", ir.Long(1)))})
	}
	z := ent("X", "z")
	for _, c := range []ir.Value{
		ir.Rec(), ir.Rec(ir.F("f", ir.Bool(true))), ir.Rec(ir.F("g", ir.Bool(true))), ir.Rec(ir.F("f", ir.Bool(true)), ir.F("g", ir.Bool(true))),
		ir.Rec(ir.F("f", ir.Long(3))), ir.Rec(ir.F("g", ir.Str("s")), ir.F("f", ir.Bool(false))),
	} {
		out = append(out, ir.Request{Principal: z, Action: view, Resource: res, Context: c})
	}
	out = append(out, ir.Request{Principal: P("9"), Action: ent("Action", "edit"), Resource: res, Context: ir.Rec(ir.F("h", ir.Str("abc")))})
	out = append(out, ir.Request{Principal: P("9"), Action: ent("Action", "other"), Resource: res, Context: ir.Rec(ir.F("h", ir.Str("abc")), ir.F("g", ir.Bool(true)))})
	out = append(out, ir.Request{Principal: P("8"), Action: view, Resource: res, Context: ir.Rec(ir.F("x", ir.Long(-1)), ir.F("g", ir.Bool(true)))})
	out = append(out, ir.Request{Principal: P("6"), Action: ent("Action", "edit"), Resource: res, Context: ir.Rec()})
	return out
}()

// outcome[k][r] = outcome of pool policy k on request r (reference evaluator), computed once
var outcome [][]ref.Outcome

var (
	cedarEntities = conv.ToEntityMap(store)
	cedarRequests []cedar.Request
)

func init() {
	for _, r := range requests {
		cedarRequests = append(cedarRequests, conv.ToRequest(r))
	}
	for _, p := range pool {
		var row []ref.Outcome
		for _, r := range requests {
			o, _ := ref.PolicyOutcome(p, ref.NewEnv(store, r))
			row = append(row, o)
		}
		outcome = append(outcome, row)
	}
}

// ---------------------------------------------------------------------------------------------
// operations (concrete, replayable)

type Op struct {
	Kind   string `json:"kind"`
	Set    int    `json:"set"`
	ID     string `json:"id,omitempty"`
	ID2    string `json:"id2,omitempty"`
	Pool   int    `json:"pool,omitempty"`
	Source string `json:"source,omitempty"` // add: ast | text | other (object fetched from the other set under ID2)
	N      int    `json:"n,omitempty"`
	Doc    string `json:"doc,omitempty"`
	Name   string `json:"name,omitempty"`
	Pools  []int  `json:"pools,omitempty"`  // load: pool index of each policy of the document
	Starts []int  `json:"starts,omitempty"` // load: offset of each policy's first token
	Keep   bool   `json:"keep,omitempty"`   // marshal-cedar / marshal-json: check the output, then go on with the SAME set object (not the reloaded one)
}

type Case struct {
	Ops []Op `json:"ops"`
}

type entry struct {
	pool      int
	posKnown  bool // full position asserted
	fileKnown bool // Filename asserted
	pos       cedar.Position
}

type side struct {
	real  *cedar.PolicySet
	model map[string]*entry
}

type machine struct {
	s     [2]side
	cache map[*cedar.Policy]int
	step  int
}

func newMachine() *machine {
	m := &machine{}
	for i := range m.s {
		m.s[i] = side{real: cedar.NewPolicySet(), model: map[string]*entry{}}
	}
	return m
}

var idUniverse = []string{"a", "b", "policy0", "policy1", "policy10", "policy2", "", "ä-ポリシー\u0000\"q\""}

func sortedIDs(m map[string]*entry) []string {
	ids := make([]string, 0, len(m))
	for id := range m {
		ids = append(ids, id)
	}
	sort.Strings(ids)
	return ids
}

// samePoolCached is samePool with a per-history cache keyed by object identity (policies are immutable objects).
func (m *machine) samePool(p *cedar.Policy, k int) (bool, string) {
	if m.cache == nil {
		m.cache = map[*cedar.Policy]int{}
	}
	if kk, ok := m.cache[p]; ok && kk == k {
		return true, ""
	}
	ok, msg := samePool(p, k)
	if ok {
		m.cache[p] = k
	}
	return ok, msg
}

func samePool(p *cedar.Policy, k int) (bool, string) {
	got, err := conv.FromPolicy(p)
	if err != nil {
		return false, "cannot read policy: " + err.Error()
	}
	if !conv.EqualPolicy(got, pool[k]) {
		return false, fmt.Sprintf("policy is %s, model says pool[%d] = %s", ir.JSON(got), k, ir.JSON(pool[k]))
	}
	return true, ""
}

func posOK(e *entry, got cedar.Position) bool {
	if e.posKnown {
		return got == e.pos
	}
	if e.fileKnown {
		return got.Filename == e.pos.Filename
	}
	return true
}

func poolText(k int) string { return render.Policy(pool[k], render.Opts{}) }

// verify compares one side with its model: Get over all ids, All(), and Authorize over the whole request universe
// (full) or over four requests that rotate with the step number (light: used for the set the step did not touch).
func (m *machine) verify(i int, full bool) (string, string) {
	sd := m.s[i]
	// Get over the universe and the model's ids
	ids := map[string]bool{}
	for _, id := range idUniverse {
		ids[id] = true
	}
	for id := range sd.model {
		ids[id] = true
	}
	for id := range ids {
		p := sd.real.Get(cedar.PolicyID(id))
		e := sd.model[id]
		if (p == nil) != (e == nil) {
			return "state/get", fmt.Sprintf("set %d: Get(%q) nil=%v but model present=%v", i, id, p == nil, e != nil)
		}
		if p != nil {
			if ok, msg := m.samePool(p, e.pool); !ok {
				return "state/get", fmt.Sprintf("set %d: Get(%q): %s", i, id, msg)
			}
			if !posOK(e, p.Position()) {
				return "state/position", fmt.Sprintf("set %d: Get(%q).Position() = %+v, model %+v (full=%v)", i, id, p.Position(), e.pos, e.posKnown)
			}
		}
	}
	// All
	seen := map[string]bool{}
	for id, p := range sd.real.All() {
		if seen[string(id)] {
			return "state/all", fmt.Sprintf("set %d: All() yields %q twice", i, id)
		}
		seen[string(id)] = true
		e := sd.model[string(id)]
		if e == nil || p == nil {
			return "state/all", fmt.Sprintf("set %d: All() yields %q which the model does not hold (or a nil policy)", i, id)
		}
		if ok, msg := m.samePool(p, e.pool); !ok {
			return "state/all", fmt.Sprintf("set %d: All() %q: %s", i, id, msg)
		}
	}
	if len(seen) != len(sd.model) {
		return "state/all", fmt.Sprintf("set %d: All() yields %d policies, model holds %d", i, len(seen), len(sd.model))
	}
	// Authorize over the request universe
	mids := sortedIDs(sd.model)
	nreq := 0
	for r := range requests {
		if !full && (r+m.step)%7 != 0 {
			continue
		}
		nreq++
		var permits, forbids, errs []string
		for _, id := range mids {
			e := sd.model[id]
			switch outcome[e.pool][r] {
			case ref.Erroring:
				errs = append(errs, id)
			case ref.Satisfied:
				if pool[e.pool].Permit {
					permits = append(permits, id)
				} else {
					forbids = append(forbids, id)
				}
			}
		}
		wantAllow := len(forbids) == 0 && len(permits) > 0
		wantReasons := forbids
		if len(forbids) == 0 {
			wantReasons = permits
		}
		dec, diag := cedar.Authorize(sd.real, cedarEntities, cedarRequests[r])
		if (dec == cedar.Allow) != wantAllow {
			return "authorize/decision", fmt.Sprintf("set %d request %d (%s): decision %v, model (ids %v) says allow=%v", i, r, ir.JSON(requests[r]), dec, mids, wantAllow)
		}
		var gotReasons, gotErrs []string
		for _, x := range diag.Reasons {
			gotReasons = append(gotReasons, string(x.PolicyID))
			if e := sd.model[string(x.PolicyID)]; e != nil && !posOK(e, x.Position) {
				return "authorize/position", fmt.Sprintf("set %d request %d: reason %q carries %+v, model %+v", i, r, x.PolicyID, x.Position, e.pos)
			}
		}
		for _, x := range diag.Errors {
			gotErrs = append(gotErrs, string(x.PolicyID))
			if e := sd.model[string(x.PolicyID)]; e != nil && !posOK(e, x.Position) {
				return "authorize/position", fmt.Sprintf("set %d request %d: error %q carries %+v, model %+v", i, r, x.PolicyID, x.Position, e.pos)
			}
		}
		sort.Strings(gotReasons)
		sort.Strings(gotErrs)
		if strings.Join(gotReasons, "\x01") != strings.Join(wantReasons, "\x01") {
			return "authorize/reasons", fmt.Sprintf("set %d request %d (%s): reasons %q, model says %q", i, r, ir.JSON(requests[r]), gotReasons, wantReasons)
		}
		if strings.Join(gotErrs, "\x01") != strings.Join(errs, "\x01") {
			return "authorize/errors", fmt.Sprintf("set %d request %d (%s): errors from %q, model says %q", i, r, ir.JSON(requests[r]), gotErrs, errs)
		}
	}
	ev.R.Count(int64(nreq))
	return "", ""
}

// newObject builds the *cedar.Policy to add and the model entry describing it.
func (m *machine) newObject(op *Op) (*cedar.Policy, *entry, string) {
	switch op.Source {
	case "text":
		var p cedar.Policy
		if err := p.UnmarshalCedar([]byte(poolText(op.Pool))); err != nil {
			return nil, nil, fmt.Sprintf("pool policy %d does not parse: %v", op.Pool, err)
		}
		return &p, &entry{pool: op.Pool, posKnown: true, pos: cedar.Position{Offset: 0, Line: 1, Column: 1}}, ""
	case "other":
		o := m.s[1-op.Set]
		if e := o.model[op.ID2]; e != nil {
			if p := o.real.Get(cedar.PolicyID(op.ID2)); p != nil {
				ee := *e
				return p, &ee, ""
			}
			return nil, nil, fmt.Sprintf("set %d: Get(%q) is nil but the model holds it", 1-op.Set, op.ID2)
		}
		fallthrough
	default:
		return conv.ToPolicy(pool[op.Pool]), &entry{pool: op.Pool, posKnown: true}, ""
	}
}

// apply runs one operation against the real set and the model; returns a violation or "".
func (m *machine) apply(op *Op) (sub, msg string) {
	defer func() {
		if r := recover(); r != nil {
			sub, msg = "panic/"+op.Kind, fmt.Sprint(r)
		}
	}()
	sd := &m.s[op.Set]
	switch op.Kind {
	case "add", "add-alias":
		p, e, bad := m.newObject(op)
		if bad != "" {
			return "state/get", bad
		}
		_, present := sd.model[op.ID]
		if got := sd.real.Add(cedar.PolicyID(op.ID), p); got != !present {
			return "add/return", fmt.Sprintf("Add(%q) returned %v, model present=%v", op.ID, got, present)
		}
		sd.model[op.ID] = e
		if op.Kind == "add-alias" {
			_, present2 := sd.model[op.ID2]
			if got := sd.real.Add(cedar.PolicyID(op.ID2), p); got != !present2 {
				return "add/return", fmt.Sprintf("Add(%q) (same *Policy as %q) returned %v, model present=%v", op.ID2, op.ID, got, present2)
			}
			sd.model[op.ID2] = e
		}
	case "remove":
		_, present := sd.model[op.ID]
		if got := sd.real.Remove(cedar.PolicyID(op.ID)); got != present {
			return "remove/return", fmt.Sprintf("Remove(%q) returned %v, model present=%v", op.ID, got, present)
		}
		delete(sd.model, op.ID)
	case "get":
		// covered by verify; kept as an explicit action so that histories contain lookups of absent ids
		p := sd.real.Get(cedar.PolicyID(op.ID))
		if (p == nil) != (sd.model[op.ID] == nil) {
			return "state/get", fmt.Sprintf("Get(%q) nil=%v, model present=%v", op.ID, p == nil, sd.model[op.ID] != nil)
		}
	case "map-mutate":
		mp := sd.real.Map()
		if len(mp) != len(sd.model) {
			return "map/contents", fmt.Sprintf("Map() has %d entries, model %d", len(mp), len(sd.model))
		}
		for id, p := range mp {
			e := sd.model[string(id)]
			if e == nil || p == nil {
				return "map/contents", fmt.Sprintf("Map() holds %q, model does not", id)
			}
			if ok, msg := samePool(p, e.pool); !ok {
				return "map/contents", fmt.Sprintf("Map()[%q]: %s", id, msg)
			}
		}
		// mutate the returned map: the set must not notice (verify follows)
		ids := sortedIDs(sd.model)
		if len(ids) > 0 {
			delete(mp, cedar.PolicyID(ids[op.N%len(ids)]))
			mp[cedar.PolicyID(ids[(op.N+1)%len(ids)])] = conv.ToPolicy(pool[op.Pool])
		}
		mp["added-to-copy"] = conv.ToPolicy(pool[op.Pool])
	case "all-break":
		n := 0
		for id, p := range sd.real.All() {
			if sd.model[string(id)] == nil || p == nil {
				return "state/all", fmt.Sprintf("All() yields %q which the model does not hold", id)
			}
			n++
			if n >= op.N {
				break
			}
		}
		if want := min(op.N, len(sd.model)); n != want && !(op.N <= 0 && n <= 1) {
			return "state/all", fmt.Sprintf("All() with a break after %d yielded %d of %d", op.N, n, len(sd.model))
		}
	case "all-remove":
		// Remove policies from inside a `range ps.All()` loop, as one may with a plain map: a removed entry that has not
		// been reached yet is never produced, no produced policy is nil, nothing is produced twice.
		seen := map[string]bool{}
		removed := map[string]bool{}
		step := 0
		for id, p := range sd.real.All() {
			sid := string(id)
			if p == nil {
				return "state/all", fmt.Sprintf("All() yields a nil policy for %q", id)
			}
			if removed[sid] {
				return "state/all", fmt.Sprintf("All() yields %q, which was removed earlier in the same loop before being reached", id)
			}
			if seen[sid] {
				return "state/all", fmt.Sprintf("All() yields %q twice", id)
			}
			if sd.model[sid] == nil {
				return "state/all", fmt.Sprintf("All() yields %q which the model does not hold", id)
			}
			seen[sid] = true
			// remove up to op.N other, not yet seen ids (in sorted order, starting at a position that depends on the step)
			ids := sortedIDs(sd.model)
			k := 0
			for j := 0; j < len(ids) && k < op.N; j++ {
				cand := ids[(j+step+op.Pool)%len(ids)]
				if !seen[cand] && !removed[cand] {
					sd.real.Remove(cedar.PolicyID(cand))
					removed[cand] = true
					k++
				}
			}
			step++
		}
		for id := range removed {
			delete(sd.model, id)
		}
		if len(seen) != len(sd.model) {
			return "state/all", fmt.Sprintf("All() with removals inside the loop produced %d policies, %d remain", len(seen), len(sd.model))
		}
	case "copy":
		dst := &m.s[1-op.Set]
		ns := cedar.NewPolicySet()
		if op.N%2 == 0 {
			for id, p := range sd.real.Map() {
				ns.Add(id, p)
			}
		} else {
			for id, p := range sd.real.All() {
				ns.Add(id, p)
			}
		}
		dst.real = ns
		dst.model = map[string]*entry{}
		for id, e := range sd.model {
			dst.model[id] = e
		}
	case "marshal-cedar":
		text := sd.real.MarshalCedar()
		ns, err := cedar.NewPolicySetFromBytes(op.Name, text)
		if err != nil {
			return "marshal-cedar/reparse", fmt.Sprintf("MarshalCedar output does not parse: %v\n%s", err, text)
		}
		ids := sortedIDs(sd.model)
		nm := map[string]*entry{}
		var starts []int
		if spans, ok := c18doc.Lex(string(text)); ok {
			starts = c18doc.PolicyStarts(string(text), spans)
		}
		cnt := 0
		for range ns.All() {
			cnt++
		}
		if cnt != len(ids) {
			return "marshal-cedar/order", fmt.Sprintf("set of %d policies marshals to a document of %d policies", len(ids), cnt)
		}
		for k, id := range ids {
			nid := fmt.Sprintf("policy%d", k)
			p := ns.Get(cedar.PolicyID(nid))
			if p == nil {
				return "marshal-cedar/order", fmt.Sprintf("reloaded set lacks %s", nid)
			}
			if ok, msg := samePool(p, sd.model[id].pool); !ok {
				return "marshal-cedar/order", fmt.Sprintf("policy #%d of the marshalled text should be the one stored under %q (lexicographic order of %q): %s", k, id, ids, msg)
			}
			e := &entry{pool: sd.model[id].pool, fileKnown: true, pos: cedar.Position{Filename: op.Name}}
			if len(starts) == len(ids) {
				l, c := c18doc.Pos(string(text), starts[k])
				e.posKnown, e.pos = true, cedar.Position{Filename: op.Name, Offset: starts[k], Line: l, Column: c}
			}
			nm[nid] = e
		}
		if !op.Keep {
			sd.real, sd.model = ns, nm
		}
	case "marshal-json":
		b, err := sd.real.MarshalJSON()
		if err != nil {
			return "marshal-json/roundtrip", fmt.Sprintf("MarshalJSON fails: %v", err)
		}
		var ns cedar.PolicySet
		if err := ns.UnmarshalJSON(b); err != nil {
			return "marshal-json/roundtrip", fmt.Sprintf("UnmarshalJSON of MarshalJSON output fails: %v\n%s", err, b)
		}
		nm := map[string]*entry{}
		for id, e := range sd.model {
			nm[id] = &entry{pool: e.pool}
		}
		if op.Keep {
			// the decoded copy has to hold the same policies; the history continues with the original object
			for id, e := range nm {
				p := ns.Get(cedar.PolicyID(id))
				if p == nil {
					return "marshal-json/roundtrip", fmt.Sprintf("MarshalJSON output lacks policy %q", id)
				}
				if ok, msg := samePool(p, e.pool); !ok {
					return "marshal-json/roundtrip", fmt.Sprintf("MarshalJSON output, %q: %s", id, msg)
				}
			}
			cnt := 0
			for range ns.All() {
				cnt++
			}
			if cnt != len(nm) {
				return "marshal-json/roundtrip", fmt.Sprintf("MarshalJSON output holds %d policies, the set %d", cnt, len(nm))
			}
			break
		}
		sd.real, sd.model = &ns, nm
	case "json-into-nonempty":
		b, err := sd.real.MarshalJSON()
		if err != nil {
			return "marshal-json/roundtrip", fmt.Sprintf("MarshalJSON fails: %v", err)
		}
		target := cedar.NewPolicySet()
		target.Add("old-entry", conv.ToPolicy(pool[op.Pool]))
		target.Add("a", conv.ToPolicy(pool[(op.Pool+1)%len(pool)]))
		if err := target.UnmarshalJSON(b); err != nil {
			return "marshal-json/roundtrip", fmt.Sprintf("UnmarshalJSON into a non-empty set fails: %v", err)
		}
		for id, e := range sd.model {
			p := target.Get(cedar.PolicyID(id))
			if p == nil {
				return "marshal-json/roundtrip", fmt.Sprintf("after UnmarshalJSON into a non-empty set id %q is missing", id)
			}
			if ok, msg := samePool(p, e.pool); !ok {
				return "marshal-json/roundtrip", fmt.Sprintf("after UnmarshalJSON into a non-empty set, %q: %s", id, msg)
			}
		}
		if target.Get("old-entry") == nil {
			ev.R.Label("json-into-nonempty:replaces", 1)
		} else {
			ev.R.Label("json-into-nonempty:merges", 1)
		}
	case "load":
		ns, err := cedar.NewPolicySetFromBytes(op.Name, []byte(op.Doc))
		if err != nil {
			return "load/parse", fmt.Sprintf("generated document rejected: %v\n%s", err, op.Doc)
		}
		cnt := 0
		for range ns.All() {
			cnt++
		}
		if cnt != len(op.Pools) {
			return "load/ids", fmt.Sprintf("document of %d policies loads as %d", len(op.Pools), cnt)
		}
		nm := map[string]*entry{}
		for k, pk := range op.Pools {
			l, c := c18doc.Pos(op.Doc, op.Starts[k])
			nm[fmt.Sprintf("policy%d", k)] = &entry{pool: pk, posKnown: true, pos: cedar.Position{Filename: op.Name, Offset: op.Starts[k], Line: l, Column: c}}
		}
		sd.real, sd.model = ns, nm
	default:
		return "harness", "unknown op " + op.Kind
	}
	m.step++
	for i := range m.s {
		touched := i == op.Set || op.Kind == "copy"
		if s, mm := m.verify(i, touched); s != "" {
			return s, fmt.Sprintf("after %s: %s", ir.JSON(op), mm)
		}
	}
	return "", ""
}

// ---------------------------------------------------------------------------------------------

type prng struct{ x uint64 }

func (p *prng) next(n int) int {
	p.x += 0x9E3779B97F4A7C15
	z := p.x
	z = (z ^ (z >> 30)) * 0xBF58476D1CE4E5B9
	z = (z ^ (z >> 27)) * 0x94D049BB133111EB
	z ^= z >> 31
	if n <= 1 {
		return 0
	}
	return int(z % uint64(n))
}

var fileNames = []string{"", "policies.cedar", "dir/ä.cedar", "x"}

func drawID(rt *rapid.T, sd *side, wantPresent bool) string {
	if wantPresent && len(sd.model) > 0 {
		ids := sortedIDs(sd.model)
		return ids[rapid.IntRange(0, len(ids)-1).Draw(rt, "presentid")]
	}
	return idUniverse[rapid.IntRange(0, len(idUniverse)-1).Draw(rt, "id")]
}

func genLoad(rt *rapid.T) Op {
	op := Op{Kind: "load", Name: fileNames[rapid.IntRange(0, len(fileNames)-1).Draw(rt, "fname")]}
	n := rapid.IntRange(0, 6).Draw(rt, "ndoc")
	if rapid.IntRange(0, 7).Draw(rt, "bigdoc") == 0 {
		n = rapid.IntRange(11, 13).Draw(rt, "ndocbig")
	}
	pr := &prng{x: rapid.Uint64().Draw(rt, "noise")}
	var sb strings.Builder
	for k := 0; k < n; k++ {
		sb.WriteString(c18doc.Filler(rapid.IntRange(0, 30).Draw(rt, "pad"), pr.next, false))
		pk := rapid.IntRange(0, len(pool)-1).Draw(rt, "docpool")
		op.Pools = append(op.Pools, pk)
		op.Starts = append(op.Starts, sb.Len())
		sb.WriteString(render.Policy(pool[pk], render.Opts{Noise: &render.Noise{Next: pr.next, Block: true}}))
	}
	sb.WriteString(c18doc.Filler(rapid.IntRange(0, 10).Draw(rt, "tail"), pr.next, false))
	op.Doc = sb.String()
	return op
}

func TestHistories(t *testing.T) {
	// thorough was 300 000 x <= 80 steps at first: 825 M authorizations, 25 min wall on a loaded 16-core box; cut to a third
	ev.SetChecks(ev.Scale(3000, 100000))
	_ = flag.Set("rapid.steps", fmt.Sprint(ev.Pick(40, 60)))
	ev.Check(t, func(rt *rapid.T) {
		m := newMachine()
		var log []Op
		nt := false
		labels := map[string]bool{}
		prev := "start"
		failed := false
		run := func(op Op) {
			log = append(log, op)
			labels["op:"+op.Kind] = true
			labels["pair:"+prev+">"+op.Kind] = true
			prev = op.Kind
			c := &Case{Ops: log}
			ev.Watch("history", func() any { return c })
			sub, msg := m.apply(&log[len(log)-1])
			ev.Unwatch()
			if sub != "" {
				failed = true
				ev.R.Violation(sub, c, msg)
				rt.Fatalf("C20/history: policy set and model disagree")
			}
		}
		set := func() int { return rapid.IntRange(0, 1).Draw(rt, "set") }
		rt.Repeat(map[string]func(*rapid.T){
			"add": func(rt *rapid.T) {
				i := set()
				op := Op{Kind: "add", Set: i, Pool: rapid.IntRange(0, len(pool)-1).Draw(rt, "pool")}
				op.ID = drawID(rt, &m.s[i], rapid.IntRange(0, 2).Draw(rt, "replace") == 0)
				op.Source = []string{"ast", "ast", "text", "other"}[rapid.IntRange(0, 3).Draw(rt, "source")]
				if op.Source == "other" {
					op.ID2 = drawID(rt, &m.s[1-i], true)
				}
				if _, present := m.s[i].model[op.ID]; present {
					nt = true
					labels["replace"] = true
				}
				run(op)
			},
			"addAlias": func(rt *rapid.T) {
				i := set()
				op := Op{Kind: "add-alias", Set: i, Pool: rapid.IntRange(0, len(pool)-1).Draw(rt, "pool"), Source: "ast"}
				op.ID = drawID(rt, &m.s[i], false)
				op.ID2 = drawID(rt, &m.s[i], false)
				run(op)
			},
			"remove": func(rt *rapid.T) {
				i := set()
				op := Op{Kind: "remove", Set: i, ID: drawID(rt, &m.s[i], rapid.IntRange(0, 3).Draw(rt, "present") > 0)}
				if _, present := m.s[i].model[op.ID]; present {
					nt = true
					labels["remove-present"] = true
				} else {
					labels["remove-absent"] = true
				}
				run(op)
			},
			"get": func(rt *rapid.T) {
				i := set()
				run(Op{Kind: "get", Set: i, ID: drawID(rt, &m.s[i], rapid.Bool().Draw(rt, "present"))})
			},
			"mapMutate": func(rt *rapid.T) {
				run(Op{Kind: "map-mutate", Set: set(), N: rapid.IntRange(0, 7).Draw(rt, "n"), Pool: rapid.IntRange(0, len(pool)-1).Draw(rt, "pool")})
			},
			"allBreak": func(rt *rapid.T) {
				run(Op{Kind: "all-break", Set: set(), N: rapid.IntRange(1, 6).Draw(rt, "n")})
			},
			"allRemove": func(rt *rapid.T) {
				run(Op{Kind: "all-remove", Set: set(), N: rapid.IntRange(1, 2).Draw(rt, "n"), Pool: rapid.IntRange(0, 5).Draw(rt, "start")})
			},
			"copy": func(rt *rapid.T) {
				run(Op{Kind: "copy", Set: set(), N: rapid.IntRange(0, 1).Draw(rt, "via")})
			},
			"marshalCedar": func(rt *rapid.T) {
				run(Op{Kind: "marshal-cedar", Set: set(), Name: fileNames[rapid.IntRange(0, len(fileNames)-1).Draw(rt, "fname")], Keep: rapid.Bool().Draw(rt, "keep")})
			},
			"marshalJSON": func(rt *rapid.T) {
				run(Op{Kind: "marshal-json", Set: set(), Keep: rapid.Bool().Draw(rt, "keep")})
			},
			"jsonIntoNonEmpty": func(rt *rapid.T) {
				run(Op{Kind: "json-into-nonempty", Set: set(), Pool: rapid.IntRange(0, len(pool)-1).Draw(rt, "pool")})
			},
			"load": func(rt *rapid.T) {
				op := genLoad(rt)
				op.Set = set()
				if len(op.Pools) >= 11 {
					labels["load>=11"] = true
				}
				run(op)
			},
		})
		if failed {
			return
		}
		var ls []string
		for l := range labels {
			ls = append(ls, l)
		}
		sort.Strings(ls)
		c := &Case{Ops: log}
		ev.R.Case(ir.Hash(c), nt, ls...)
		ev.R.Label("steps", int64(len(log)))
		if ev.R.WantSample("history") && len(log) >= 5 {
			ev.R.Sample("history", summarize(log))
		}
	})
}

func summarize(log []Op) []string {
	var out []string
	for _, op := range log {
		s := fmt.Sprintf("%s set=%d", op.Kind, op.Set)
		if op.Kind == "add" || op.Kind == "add-alias" || op.Kind == "remove" || op.Kind == "get" {
			s += fmt.Sprintf(" id=%q", op.ID)
		}
		if op.Kind == "add" || op.Kind == "add-alias" {
			s += fmt.Sprintf(" pool=%d source=%s id2=%q", op.Pool, op.Source, op.ID2)
		}
		if op.Kind == "load" {
			s += fmt.Sprintf(" name=%q pools=%v bytes=%d", op.Name, op.Pools, len(op.Doc))
		}
		out = append(out, s)
	}
	return out
}

// TestPoolDistinct: harness self-check - pool members have pairwise different outcome vectors, and every pool policy
// survives text and JSON round trips (otherwise the state machine would blame the container for a codec problem).
func TestPoolDistinct(t *testing.T) {
	if !ev.First() {
		return
	}
	for a := range pool {
		for b := a + 1; b < len(pool); b++ {
			same := pool[a].Permit == pool[b].Permit
			for r := range requests {
				if outcome[a][r] != outcome[b][r] {
					same = false
				}
			}
			if same {
				ev.R.Broken(fmt.Sprintf("pool policies %d and %d are indistinguishable over the request universe", a, b))
				t.Errorf("pool %d/%d indistinguishable", a, b)
			}
		}
		// each policy is satisfied or erroring on at least one request on which no other policy of the other effect fires
		seenSat := false
		for r := range requests {
			if outcome[a][r] != ref.Unsatisfied {
				seenSat = true
			}
		}
		if !seenSat {
			ev.R.Broken(fmt.Sprintf("pool policy %d never fires", a))
			t.Errorf("pool %d never fires", a)
		}
		var p cedar.Policy
		if err := p.UnmarshalCedar([]byte(poolText(a))); err != nil {
			ev.R.Broken(fmt.Sprintf("pool policy %d does not parse: %v", a, err))
			t.Errorf("pool %d: %v", a, err)
			continue
		}
		if ok, msg := samePool(&p, a); !ok {
			ev.R.Broken(fmt.Sprintf("pool policy %d changes in a text round trip: %s", a, msg))
			t.Errorf("pool %d: %s", a, msg)
		}
	}
}

// TestSortedMarshal: deterministic table for "MarshalCedar emits in lexicographic id order" over id sets that
// distinguish lexicographic from numeric and insertion order.
func TestSortedMarshal(t *testing.T) {
	if !ev.First() {
		return
	}
	idSets := [][]string{
		{"policy2", "policy10", "policy1", "policy0"},
		{"b", "a", "", "B", "ab", "a0"},
		{"policy9", "policy10", "policy11", "policy100", "policy1"},
		{"ä", "z", "a", "é", "日本", "\u0000", " "},
		{"10", "9", "1", "2", "01"},
	}
	n := 0
	for _, ids := range idSets {
		// every rotation as insertion order
		for rot := range ids {
			var log []Op
			for k := range ids {
				id := ids[(k+rot)%len(ids)]
				log = append(log, Op{Kind: "add", Set: 0, ID: id, Pool: (k + rot) % len(pool), Source: "ast"})
			}
			log = append(log, Op{Kind: "marshal-cedar", Set: 0, Name: "f.cedar"})
			log = append(log, Op{Kind: "marshal-json", Set: 0})
			c := &Case{Ops: log}
			n++
			ev.R.Case(ir.Hash(c), true, "sorted-marshal-table")
			if sub, msg := replay(c); sub != "" {
				ev.R.Violation(sub, c, msg)
				t.Fatalf("C20/%s: %s", sub, msg)
			}
		}
	}
	ev.R.Space("id sets x insertion rotations: add all, MarshalCedar -> reload, MarshalJSON -> reload", n)
}

// TestDocumentSizes: documents of every size 0..70 and around the powers of two up to 1025 policies are loaded,
// inspected (id policy<k> = k-th statement, with its position), marshalled and reloaded. Size-dependent code paths
// (batching, pre-sizing, parallel compilation above a threshold) would show here.
func TestDocumentSizes(t *testing.T) {
	if !ev.First() {
		return
	}
	var sizes []int
	for n := 0; n <= 70; n++ {
		sizes = append(sizes, n)
	}
	sizes = append(sizes, 99, 100, 101, 127, 128, 129, 255, 256, 257, 511, 512, 513)
	if ev.Thorough() {
		sizes = append(sizes, 1000, 1023, 1024, 1025, 4097)
	}
	for _, n := range sizes {
		pr := &prng{x: uint64(n) * 7919}
		op := Op{Kind: "load", Name: "sizes.cedar"}
		var sb strings.Builder
		for k := 0; k < n; k++ {
			sb.WriteString(c18doc.Filler(pr.next(12), pr.next, false))
			pk := pr.next(len(pool))
			op.Pools = append(op.Pools, pk)
			op.Starts = append(op.Starts, sb.Len())
			sb.WriteString(render.Policy(pool[pk], render.Opts{}))
		}
		sb.WriteString("\n")
		op.Doc = sb.String()
		log := []Op{op, {Kind: "marshal-cedar", Set: 0, Name: "again.cedar", Keep: true}, {Kind: "marshal-json", Set: 0, Keep: true}}
		c := &Case{Ops: log}
		ev.R.Case(ir.Hash(c), n >= 2, "document-sizes")
		if sub, msg := replay(c); sub != "" {
			if n > 80 {
				// keep the replay file small: the same construction, truncated description
				msg = fmt.Sprintf("document of %d policies: %s", n, msg)
			}
			ev.R.Violation(sub, c, msg)
			t.Fatalf("C20/%s: document of %d policies: %s", sub, n, msg)
		}
	}
	ev.R.Space("document sizes 0..70 and around 100 / 128 / 256 / 512 (thorough: 1000 / 1024 / 4097): load, inspect, marshal, reload", len(sizes))
}

func replay(c *Case) (string, string) {
	m := newMachine()
	for i := range c.Ops {
		if sub, msg := m.apply(&c.Ops[i]); sub != "" {
			return sub, fmt.Sprintf("step %d: %s", i, msg)
		}
	}
	return "", ""
}

func TestKnown(t *testing.T) {}

func TestReplay(t *testing.T) {
	rf, ok, err := ev.LoadReplay()
	if !ok {
		t.Skip("no replay requested")
	}
	if err != nil {
		t.Fatal(err)
	}
	if ev.ReplayFuzz(t, rf, fuzzProps, nil) {
		return
	}
	var c Case
	if err := json.Unmarshal(rf.Case, &c); err != nil {
		t.Fatalf("cannot decode replay case: %v", err)
	}
	if sub, msg := replay(&c); sub != "" {
		ev.R.Violation(sub, &c, msg)
		t.Fatalf("C20 replay %s: %s", sub, msg)
	}
}
