package c20

// Coverage-guided driving of this package's rapid properties (thorough tier; see ev/fuzz.go).

import (
	"testing"

	"verif/ev"
)

var fuzzProps = map[string]func(*testing.T){
	"FuzzPropHistories": TestHistories,
}

func FuzzPropHistories(f *testing.F) { ev.FuzzProp(f, TestHistories) }
