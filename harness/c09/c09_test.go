// C09: the JSON policy codec round-trips and agrees with the text codec.
//
// For a policy p (IR):
//
//	(i)   conv.ToPolicy(p).MarshalJSON() -> UnmarshalJSON -> conv.FromPolicy equals p, modulo the documented literal path
//	      (a literal node holding a decimal / ip value may come back as the constructor call on its text), annotations
//	      and record-literal entries compared by key;
//	(ii)  the harness's own JSON rendering of p (written from the format description, member order and whitespace
//	      varied) -> UnmarshalJSON -> conv.FromPolicy equals p;
//	(iii) text -> Policy -> JSON -> Policy equals text -> Policy (and renders to the same text when no keyed collection has
//	      two entries); JSON -> Policy -> text -> Policy -> JSON equals JSON -> Policy -> JSON byte for byte (parser-normal p);
//	(iv)  every encoding of p (built, cedar-go JSON round trip, own JSON, cedar-go text round trip, own text) gives the
//	      same decision / error / reason counts from cedar.Authorize on >= 4 environments;
//	(v)   PolicySet.MarshalJSON -> UnmarshalJSON (and the harness's own policy-set JSON) preserves the id -> policy map.
//
// Carve-outs (check weaker than the statement):
//   - literal record values in which the key "__entity" or "__extn" maps to a value whose JSON form is an object (record,
//     entity, extension value) are not generated (the JSON value format reserves these shapes; ambiguous by construction);
//   - unknown extension function names and method-style calls without a receiver are not generated (the decoder
//     documents the former as an error, the latter cannot be written as text);
//   - a failure of the *text* legs alone (MarshalCedar output that does not parse) is C08's subject: such a policy takes
//     part in the JSON legs only and is counted under the label "text-leg-unavailable";
//   - like patterns are compared after normalisation (adjacent wildcards collapsed, empty literals dropped).
//
// Sensitivity (scratch copy of /repo, quick tier, one shard):
//   - binaryToJSON swapping left / right            -> caught: json/ast, set/policy
//   - the same swap in encoder *and* decoder         -> caught: myjson/ast, myset/policy (only the independent emitter can
//                                                     see a codec that is wrong in the same way on both sides)
//   - isInToJSON dropping "in"                       -> caught: json/ast
//   - "has" decoded as access                        -> caught: json/ast
//   - "neg" and "!" swapped in the decoder           -> caught: json/ast
//   - scope "is" losing entity_type on encode        -> caught: json/ast
//   - containsAll decoded as containsAny             -> caught: json/ast
package c09

import (
	"bytes"
	"encoding/json"
	"fmt"
	"sort"
	"strings"
	"testing"

	cedar "github.com/cedar-policy/cedar-go"
	"pgregory.net/rapid"

	"verif/conv"
	"verif/ev"
	"verif/gen"
	"verif/ir"
	"verif/ref"
	"verif/render"
)

func TestMain(m *testing.M) { ev.Main(m, "C09") }

// Case is one policy with the environments for the meaning legs. MyJSON is the harness's own JSON rendering as it was
// drawn (member order / whitespace); empty = canonical rendering.
type Case struct {
	Policy *ir.Policy  `json:"policy"`
	Worlds []gen.World `json:"worlds"`
	MyJSON string      `json:"my_json,omitempty"`
	AsCall bool        `json:"as_call,omitempty"` // MyJSON writes extension-typed literals as constructor calls
}

type SetCase struct {
	IDs      []string     `json:"ids"`
	Policies []*ir.Policy `json:"policies"`
	MyJSON   string       `json:"my_json,omitempty"`
}

// ---------------------------------------------------------------------------------------------
// comparison modulo the documented freedoms

type callKinds map[ir.Kind]bool

var cedarCalls = callKinds{ir.KDecimal: true, ir.KIP: true} // cedar-go's encoder writes these literal kinds as calls
var allCalls = callKinds{ir.KDecimal: true, ir.KIP: true, ir.KDatetime: true, ir.KDuration: true}

func ctorOf(k ir.Kind) string {
	switch k {
	case ir.KDecimal:
		return "decimal"
	case ir.KIP:
		return "ip"
	case ir.KDatetime:
		return "datetime"
	case ir.KDuration:
		return "duration"
	}
	return ""
}

// parsesTo: the constructor text s denotes the extension value v (reference parsers).
func parsesTo(s string, v ir.Value) bool {
	switch v.K {
	case ir.KDecimal:
		raw, ok := ref.ParseDecimal(s)
		return ok && raw == v.I
	case ir.KDatetime:
		ms, ok := ref.ParseDatetime(s)
		return ok && ms == v.I
	case ir.KDuration:
		ms, ok := ref.ParseDuration(s)
		return ok && ms == v.I
	case ir.KIP:
		addr, prefix, ok, _ := ref.ParseIP(s)
		return ok && ir.Equal(ir.IP(addr, prefix), v)
	}
	return false
}

func equalExpr(w, g *ir.Expr, calls callKinds) bool {
	if w == nil || g == nil {
		return w == g
	}
	if w.Op == ir.OpLit && calls[w.Lit.K] && g.Op == ir.OpExt {
		return g.Name == ctorOf(w.Lit.K) && len(g.Args) == 1 && g.Args[0].Op == ir.OpLit && g.Args[0].Lit.K == ir.KString && parsesTo(g.Args[0].Lit.S, *w.Lit)
	}
	if w.Op != g.Op || w.Name != g.Name || len(w.Args) != len(g.Args) {
		return false
	}
	switch w.Op {
	case ir.OpLit:
		return ir.Equal(*w.Lit, *g.Lit)
	case ir.OpLike:
		pw, pg := conv.NormPattern(w.Pat), conv.NormPattern(g.Pat)
		if len(pw) != len(pg) {
			return false
		}
		for i := range pw {
			if pw[i] != pg[i] {
				return false
			}
		}
	case ir.OpRecord:
		if len(w.Keys) != len(g.Keys) {
			return false
		}
		idx := map[string]int{}
		for i, k := range g.Keys {
			if _, dup := idx[k]; dup {
				return false
			}
			idx[k] = i
		}
		for i, k := range w.Keys {
			j, ok := idx[k]
			if !ok || !equalExpr(w.Args[i], g.Args[j], calls) {
				return false
			}
		}
		return true
	}
	for i := range w.Args {
		if !equalExpr(w.Args[i], g.Args[i], calls) {
			return false
		}
	}
	return true
}

func equalPolicy(w, g *ir.Policy, calls callKinds) bool {
	if w.Permit != g.Permit || len(w.Annotations) != len(g.Annotations) || len(w.Conds) != len(g.Conds) {
		return false
	}
	am := map[string]string{}
	for _, a := range g.Annotations {
		if _, dup := am[a.K]; dup {
			return false
		}
		am[a.K] = a.V
	}
	for _, a := range w.Annotations {
		if v, ok := am[a.K]; !ok || v != a.V {
			return false
		}
	}
	if !conv.EqualScope(w.Principal, g.Principal) || !conv.EqualScope(w.Action, g.Action) || !conv.EqualScope(w.Resource, g.Resource) {
		return false
	}
	for i := range w.Conds {
		if w.Conds[i].When != g.Conds[i].When || !equalExpr(w.Conds[i].Body, g.Conds[i].Body, calls) {
			return false
		}
	}
	return true
}

// ---------------------------------------------------------------------------------------------
// codec wrappers (panics become errors)

func guard(f func() error) (err error) {
	defer func() {
		if r := recover(); r != nil {
			err = fmt.Errorf("panic: %v", r)
		}
	}()
	return f()
}

func marshalJSON(p *cedar.Policy) (b []byte, err error) {
	err = guard(func() error { var e error; b, e = p.MarshalJSON(); return e })
	return
}

func unmarshalJSON(b []byte) (p *cedar.Policy, err error) {
	p = &cedar.Policy{}
	err = guard(func() error { return p.UnmarshalJSON(b) })
	return
}

func marshalCedar(p *cedar.Policy) (b []byte, err error) {
	err = guard(func() error { b = p.MarshalCedar(); return nil })
	return
}

func unmarshalCedar(b []byte) (p *cedar.Policy, err error) {
	p = &cedar.Policy{}
	err = guard(func() error { return p.UnmarshalCedar(b) })
	return
}

func fromPolicy(p *cedar.Policy) (out *ir.Policy, err error) {
	err = guard(func() error { var e error; out, e = conv.FromPolicy(p); return e })
	return
}

type verdict struct {
	Allow   bool
	Errors  int
	Reasons int
}

func authorize(p *cedar.Policy, w *gen.World) (v verdict) {
	_ = guard(func() error {
		ps := cedar.NewPolicySet()
		ps.Add("p", p)
		dec, diag := cedar.Authorize(ps, conv.ToEntityMap(w.Store), conv.ToRequest(w.Req))
		v = verdict{dec == cedar.Allow, len(diag.Errors), len(diag.Reasons)}
		return nil
	})
	return
}

func hasLike(p *ir.Policy) bool {
	found := false
	for _, c := range p.Conds {
		c.Body.Walk(func(x *ir.Expr) { found = found || x.Op == ir.OpLike })
	}
	return found
}

func multiKeyed(p *ir.Policy) bool {
	multi := len(p.Annotations) > 1
	for _, c := range p.Conds {
		c.Body.Walk(func(x *ir.Expr) {
			if x.Op == ir.OpRecord && len(x.Keys) > 1 {
				multi = true
			}
		})
	}
	return multi
}

func myJSON(c *Case) []byte {
	if c.MyJSON != "" {
		return []byte(c.MyJSON)
	}
	return render.PolicyJSON(c.Policy, render.JSONOpts{ExtLitAsCall: c.AsCall})
}

// check runs legs (i)-(iv). Returns (sub-check, message) or ("","").
func check(c *Case) (string, string) {
	p := c.Policy
	normal := gen.IsParserNormal(p)
	var built *cedar.Policy
	if err := guard(func() error { built = conv.ToPolicy(p); return nil }); err != nil {
		return "harness/build", err.Error()
	}
	type enc struct {
		name string
		p    *cedar.Policy
	}
	encs := []enc{{"built", built}}

	// (i) cedar-go's own JSON round trip
	j1, err := marshalJSON(built)
	if err != nil {
		return "json/encode", "MarshalJSON fails: " + err.Error()
	}
	rt, err := unmarshalJSON(j1)
	if err != nil {
		return "json/decode", fmt.Sprintf("UnmarshalJSON rejects MarshalJSON output: %v\njson: %s", err, j1)
	}
	irRT, err := fromPolicy(rt)
	if err != nil {
		return "json/unreadable", fmt.Sprintf("cannot read the decoded policy: %v\njson: %s", err, j1)
	}
	if !equalPolicy(p, irRT, cedarCalls) {
		return "json/ast", fmt.Sprintf("policy changed in the JSON round trip\njson: %s\nwant: %s\ngot:  %s", j1, ir.JSON(p), ir.JSON(irRT))
	}
	j1b, err := marshalJSON(rt)
	if err != nil {
		return "json/encode", "MarshalJSON of the decoded policy fails: " + err.Error()
	}
	if !bytes.Equal(j1, j1b) {
		return "json/bytes", fmt.Sprintf("re-encoding the decoded policy gives different JSON\nfirst:  %s\nsecond: %s", j1, j1b)
	}
	encs = append(encs, enc{"json-roundtrip", rt})

	// (ii) own emitter
	mj := myJSON(c)
	mine, err := unmarshalJSON(mj)
	if err != nil {
		return "myjson/decode", fmt.Sprintf("UnmarshalJSON rejects a document in the JSON policy format: %v\njson: %s", err, mj)
	}
	irMine, err := fromPolicy(mine)
	if err != nil {
		return "myjson/unreadable", fmt.Sprintf("cannot read the decoded policy: %v\njson: %s", err, mj)
	}
	calls := callKinds{}
	if c.AsCall {
		calls = allCalls
	}
	if !equalPolicy(p, irMine, calls) {
		return "myjson/ast", fmt.Sprintf("decoding an independently written JSON document gives a different policy\njson: %s\nwant: %s\ngot:  %s", mj, ir.JSON(p), ir.JSON(irMine))
	}
	encs = append(encs, enc{"my-json", mine})

	// (iii b) JSON -> Policy -> text -> Policy -> JSON  vs  JSON -> Policy -> JSON
	jMine, err := marshalJSON(mine)
	if err != nil {
		return "json/encode", "MarshalJSON of the policy decoded from the independent document fails: " + err.Error()
	}
	t1, err := marshalCedar(mine)
	var viaText *cedar.Policy
	if err == nil {
		viaText, err = unmarshalCedar(t1)
	}
	if err != nil {
		ev.R.Label("text-leg-unavailable", 1) // C08's subject
	} else {
		encs = append(encs, enc{"text-roundtrip", viaText})
		if normal {
			j2, err := marshalJSON(viaText)
			if err != nil {
				return "json/encode", "MarshalJSON after the text leg fails: " + err.Error()
			}
			// same policy (patterns modulo normalisation); byte-identical JSON when no pattern is involved
			irV, err := fromPolicy(viaText)
			if err != nil {
				return "harness/unreadable", err.Error()
			}
			if !equalPolicy(irMine, irV, callKinds{}) || (!hasLike(p) && !bytes.Equal(jMine, j2)) {
				return "square/json-text-json", fmt.Sprintf("JSON -> text -> JSON differs from JSON -> JSON\ntext: %s\ndirect:   %s\nvia text: %s", t1, jMine, j2)
			}
		}
	}

	// (iii a) text -> Policy -> JSON -> Policy  vs  text -> Policy
	if normal {
		src := render.Policy(p, render.Opts{})
		fromText, err := unmarshalCedar([]byte(src))
		if err != nil {
			ev.R.Label("own-text-rejected", 1) // C07's subject
		} else {
			encs = append(encs, enc{"my-text", fromText})
			irT, err := fromPolicy(fromText)
			if err != nil {
				return "harness/unreadable", err.Error()
			}
			jt, err := marshalJSON(fromText)
			if err != nil {
				return "json/encode", "MarshalJSON of a parsed policy fails: " + err.Error()
			}
			back, err := unmarshalJSON(jt)
			if err != nil {
				return "square/text-json", fmt.Sprintf("UnmarshalJSON rejects the JSON form of a parsed policy: %v\ntext: %s\njson: %s", err, src, jt)
			}
			irB, err := fromPolicy(back)
			if err != nil {
				return "json/unreadable", err.Error()
			}
			if !equalPolicy(irT, irB, cedarCalls) {
				return "square/text-json", fmt.Sprintf("text -> JSON -> policy differs from text -> policy\ntext: %s\njson: %s\nwant: %s\ngot:  %s", src, jt, ir.JSON(irT), ir.JSON(irB))
			}
			if !multiKeyed(p) {
				ta, e1 := marshalCedar(fromText)
				tb, e2 := marshalCedar(back)
				if e1 != nil || e2 != nil || !bytes.Equal(ta, tb) {
					return "square/text-json-text", fmt.Sprintf("text -> JSON -> text differs from text -> text\ndirect:   %s\nvia JSON: %s", ta, tb)
				}
			}
		}
	}

	// (iv) all encodings authorize identically
	for wi := range c.Worlds {
		w := &c.Worlds[wi]
		base := authorize(encs[0].p, w)
		ev.R.Count(1)
		for _, e := range encs[1:] {
			if v := authorize(e.p, w); v != base {
				return "authorize/differs", fmt.Sprintf("environment %d: the policy built from the AST gives %+v, its %s encoding gives %+v\njson: %s", wi, base, e.name, v, j1)
			}
		}
		out, _ := ref.PolicyOutcome(p, ref.NewEnv(w.Store, w.Req))
		refErr := 0
		if out == ref.Erroring {
			refErr = 1
		}
		if (out == ref.Satisfied) == (base.Reasons == 1) && refErr == base.Errors {
			ev.R.Label("ref-agrees-with-authorize", 1)
		} else {
			ev.R.Label("ref-disagrees-with-authorize", 1)
		}
		switch {
		case base.Errors > 0:
			ev.R.Label("outcome:error", 1)
		case base.Reasons > 0:
			ev.R.Label("outcome:satisfied", 1)
		default:
			ev.R.Label("outcome:unsatisfied", 1)
		}
	}
	return "", ""
}

func setJSONRoundTrip(ids []string, ps []*ir.Policy, doc []byte, calls callKinds) (string, string) {
	var back cedar.PolicySet
	if err := guard(func() error { return back.UnmarshalJSON(doc) }); err != nil {
		return "set/decode", fmt.Sprintf("PolicySet.UnmarshalJSON rejects the document: %v\njson: %s", err, doc)
	}
	want := map[string]*ir.Policy{}
	for i, id := range ids {
		want[id] = ps[i] // a later policy under the same id replaces the earlier one
	}
	n := 0
	for id, q := range back.All() {
		n++
		w, ok := want[string(id)]
		if !ok {
			return "set/ids", fmt.Sprintf("decoded set has the extra id %q\njson: %s", id, doc)
		}
		qi, err := fromPolicy(q)
		if err != nil {
			return "set/unreadable", err.Error()
		}
		if !equalPolicy(w, qi, calls) {
			return "set/policy", fmt.Sprintf("policy %q changed\njson: %s\nwant: %s\ngot:  %s", id, doc, ir.JSON(w), ir.JSON(qi))
		}
	}
	if n != len(want) {
		return "set/ids", fmt.Sprintf("%d ids became %d\njson: %s", len(want), n, doc)
	}
	for id := range want {
		if back.Get(cedar.PolicyID(id)) == nil {
			return "set/ids", fmt.Sprintf("id %q is missing after the round trip\njson: %s", id, doc)
		}
	}
	return "", ""
}

func checkSet(c *SetCase) (sub, msg string) {
	ps := cedar.NewPolicySet()
	if err := guard(func() error {
		// The set is encoded once before it is complete: the first id is bound to another policy of the case at that time
		// and only afterwards replaced (under the same id) by its own. The encoding asked for at the end has to describe
		// the set as it is then.
		n := len(c.IDs)
		for i, id := range c.IDs {
			if n >= 2 && id == c.IDs[0] {
				ps.Add(cedar.PolicyID(id), conv.ToPolicy(c.Policies[n-1]))
				continue
			}
			ps.Add(cedar.PolicyID(id), conv.ToPolicy(c.Policies[i]))
		}
		if n >= 2 {
			_, _ = ps.MarshalJSON()
			for i, id := range c.IDs {
				if id == c.IDs[0] {
					ps.Add(cedar.PolicyID(id), conv.ToPolicy(c.Policies[i]))
				}
			}
		}
		return nil
	}); err != nil {
		return "harness/build", err.Error()
	}
	var doc []byte
	if err := guard(func() error { var e error; doc, e = ps.MarshalJSON(); return e }); err != nil {
		return "set/encode", "PolicySet.MarshalJSON fails: " + err.Error()
	}
	if s, m := setJSONRoundTrip(c.IDs, c.Policies, doc, cedarCalls); s != "" {
		return s, m
	}
	// own envelope; JSON object member names are unique, so only the last policy per id is written
	last := map[string]int{}
	for i, id := range c.IDs {
		last[id] = i
	}
	var ids []string
	var pols []*ir.Policy
	for i, id := range c.IDs {
		if last[id] == i {
			ids = append(ids, id)
			pols = append(pols, c.Policies[i])
		}
	}
	mine := []byte(c.MyJSON)
	if c.MyJSON == "" {
		mine = render.PolicySetJSON(ids, pols, render.JSONOpts{})
	}
	if s, m := setJSONRoundTrip(ids, pols, mine, callKinds{}); s != "" {
		return "my" + s, m
	}
	return "", ""
}

// ---------------------------------------------------------------------------------------------
// known findings and domain exclusions

func hasReservedKeyRecord(p *ir.Policy) bool {
	found := false
	gen.PolicyValues(p, func(v ir.Value) {
		for _, f := range v.Fields {
			if f.K != "__entity" && f.K != "__extn" {
				continue
			}
			switch f.V.K {
			case ir.KRecord, ir.KEntity, ir.KDecimal, ir.KIP, ir.KDatetime, ir.KDuration:
				found = true // the member's JSON form is an object: the shape the value format reserves
			}
		}
	})
	return found
}

// negateLiteral: Negate applied directly to a non-negative long literal. MarshalCedar writes "-n", which the parser
// reads as the literal -n, so the text leg turns {"neg":{"arg":{"Value":n}}} into {"Value":-n}.
func negateLiteral(p *ir.Policy) bool {
	found := false
	for _, c := range p.Conds {
		c.Body.Walk(func(x *ir.Expr) {
			if x.Op == ir.OpNeg && x.Args[0].Op == ir.OpLit && x.Args[0].Lit.K == ir.KLong && x.Args[0].Lit.I >= 0 {
				found = true
			}
		})
	}
	return found
}

func knownKey(p *ir.Policy) string {
	key := ""
	if ev.KnownOpen("C09", "negate-literal-fold") && negateLiteral(p) {
		return "negate-literal-fold"
	}
	if ev.KnownOpen("C09", "like-empty-pattern") {
		for _, c := range p.Conds {
			c.Body.Walk(func(x *ir.Expr) {
				if x.Op == ir.OpLike && len(x.Pat) == 0 {
					key = "like-empty-pattern"
				}
			})
		}
	}
	if key == "" && ev.KnownOpen("C09", "ipv4-mapped-string") {
		gen.PolicyValues(p, func(v ir.Value) {
			if gen.IsMappedIP(v) {
				key = "ipv4-mapped-string"
			}
		})
	}
	return key
}

// ---------------------------------------------------------------------------------------------
// bookkeeping

func shapeLabels(p *ir.Policy) ([]string, bool) {
	seen := map[string]bool{}
	nt := false
	for _, c := range p.Conds {
		c.Body.Walk(func(x *ir.Expr) {
			seen["shape:"+render.JSONShape(x)] = true
			switch x.Op {
			case ir.OpLit, ir.OpVar, ir.OpEq, ir.OpAnd:
			default:
				nt = true
			}
			if x.Op == ir.OpLit {
				seen["value:"+string(x.Lit.K)] = true
			}
		})
		if c.When {
			seen["cond:when"] = true
		} else {
			seen["cond:unless"] = true
		}
	}
	seen["scope:principal:"+p.Principal.Kind] = true
	seen["scope:action:"+p.Action.Kind] = true
	seen["scope:resource:"+p.Resource.Kind] = true
	if len(p.Annotations) >= 2 {
		seen["annotations>=2"] = true
	}
	var out []string
	for k := range seen {
		out = append(out, k)
	}
	sort.Strings(out)
	return out, nt
}

func run(c *Case, class string, fail func(sub, msg string)) bool {
	if hasReservedKeyRecord(c.Policy) {
		ev.R.Label("excluded-domain:reserved-key-record", 1)
		return true
	}
	if k := knownKey(c.Policy); k != "" {
		ev.R.Excluded(k)
		return true
	}
	ev.Watch("policy", func() any { return c })
	sub, msg := check(c)
	ev.Unwatch()
	ls, nt := shapeLabels(c.Policy)
	ev.R.Case(ir.Hash(c.Policy), nt, append(ls, class)...)
	if ev.R.WantSample(class) {
		ev.R.Sample(class, map[string]any{"json": string(myJSON(c))})
	}
	if sub != "" {
		ev.R.Violation(sub, c, msg)
		fail(sub, msg)
		return false
	}
	return true
}

func runSet(c *SetCase, class string, fail func(sub, msg string)) bool {
	for _, p := range c.Policies {
		if hasReservedKeyRecord(p) {
			ev.R.Label("excluded-domain:reserved-key-record", 1)
			return true
		}
		if k := knownKey(p); k != "" {
			ev.R.Excluded(k)
			return true
		}
	}
	ev.Watch("set", func() any { return c })
	sub, msg := checkSet(c)
	ev.Unwatch()
	ev.R.Case(ir.Hash(c), len(c.IDs) >= 2, class, fmt.Sprintf("set-size:%d", len(c.IDs)))
	if sub != "" {
		ev.R.Violation(sub, c, msg)
		fail(sub, msg)
		return false
	}
	return true
}

func tableFail(t *testing.T) func(sub, msg string) {
	n := 0
	return func(sub, msg string) {
		n++
		if n <= 15 {
			t.Errorf("C09/%s: %s", sub, msg)
		}
	}
}

func mine(i int) bool { return i%ev.NShards == ev.Shard }

func condPolicy(e *ir.Expr) *ir.Policy {
	p := ir.NewPolicy(true)
	p.Conds = []ir.Cond{{When: true, Body: e}}
	return p
}

type lcg struct{ s uint64 }

func (l *lcg) next(n int) int {
	l.s = l.s*6364136223846793005 + 1442695040888963407
	return int((l.s >> 33) % uint64(n))
}

// variants runs p with the canonical own rendering, a permuted one and one with literals as constructor calls.
func variants(p *ir.Policy, worlds []gen.World, seed uint64, class string, fail func(sub, msg string)) {
	run(&Case{Policy: p, Worlds: worlds}, class, fail)
	l := &lcg{s: seed*7919 + 17}
	run(&Case{Policy: p, Worlds: worlds, MyJSON: string(render.PolicyJSON(p, render.JSONOpts{Next: l.next}))}, class, fail)
	run(&Case{Policy: p, Worlds: worlds, AsCall: true, MyJSON: string(render.PolicyJSON(p, render.JSONOpts{Next: l.next, ExtLitAsCall: true}))}, class, fail)
}

// ---------------------------------------------------------------------------------------------
// tables

// TestShapes: at least one case per JSON node shape: (parent, position, child) triples, every extension function,
// every literal value kind, every scope form, annotations.
func TestShapes(t *testing.T) {
	fail := tableFail(t)
	worlds := gen.FixedWorlds()[:4]
	count := 0
	for _, slot := range gen.Slots() {
		for _, sh := range gen.Shapes() {
			count++
			if !mine(count) {
				continue
			}
			// two renderings per triple (canonical + one drawn); the three-fold `variants` is kept for the smaller tables below
			p := condPolicy(slot.Build(sh.Build()))
			run(&Case{Policy: p, Worlds: worlds[:2]}, "shape-table", fail)
			l := &lcg{s: uint64(count)*7919 + 17}
			asCall := count%2 == 0
			run(&Case{Policy: p, Worlds: worlds[2:4], AsCall: asCall, MyJSON: string(render.PolicyJSON(p, render.JSONOpts{Next: l.next, ExtLitAsCall: asCall}))}, "shape-table", fail)
		}
	}
	S := func(s string) *ir.Expr { return ir.Lit(ir.Str(s)) }
	ctx := ir.Var("context")
	var exts []*ir.Expr
	for _, f := range gen.CtorFuncs {
		exts = append(exts, ir.Ext(f, S("1.5")), ir.Ext(f, ir.Access(ctx, "k")), ir.Ext(f), ir.Ext(f, S("a"), S("b")))
	}
	exts = append(exts, ir.Ext("ip", S("10.0.0.1/8")), ir.Ext("datetime", S("2024-01-01T00:00:00Z")), ir.Ext("duration", S("-1d2h")))
	for _, f := range gen.Methods1 {
		exts = append(exts, ir.Ext(f, ir.Access(ctx, "k")), ir.Ext(f, ir.Lit(ir.IP([]byte{127, 0, 0, 1}, 32))), ir.Ext(f, ir.Lit(ir.Datetime(-1))), ir.Ext(f, ir.Lit(ir.Duration(90061001))), ir.Ext(f, ctx, S("extra")))
	}
	for _, f := range gen.Methods2 {
		exts = append(exts, ir.Ext(f, ir.Access(ctx, "k"), ir.Access(ctx, "s")), ir.Ext(f, ir.Lit(ir.Decimal(15000)), ir.Lit(ir.Decimal(-1))), ir.Ext(f, ir.Lit(ir.IP([]byte{10, 0, 0, 1}, 32)), ir.Lit(ir.IP([]byte{10, 0, 0, 0}, 8))),
			ir.Ext(f, ir.Lit(ir.Datetime(86400000)), ir.Lit(ir.Duration(-1))), ir.Ext(f, ir.Lit(ir.Datetime(86400000)), ir.Lit(ir.Datetime(1))), ir.Ext(f, ctx))
	}
	for _, e := range exts {
		count++
		if mine(count) {
			variants(condPolicy(e), worlds, uint64(count), "shape-table", fail)
		}
	}
	vals := []ir.Value{ir.Bool(true), ir.Bool(false), ir.Long(0), ir.Long(-1), ir.Long(9223372036854775807), ir.Long(-9223372036854775808), ir.Str(""), ir.Str("a\"b\\c\né \U0001F600"), ir.Str("<>&"),
		ir.Ent("T0", "a"), ir.Ent("A::B::C", ""), ir.Ent("T0", "\x00\"'"), ir.Set(), ir.Set(ir.Long(1), ir.Str("1"), ir.Bool(true)), ir.Set(ir.Set(), ir.Rec()), ir.Rec(), ir.Rec(ir.F("", ir.Long(1)), ir.F("a b", ir.Str("x")), ir.F("__entity", ir.Long(1)), ir.F("__extn", ir.Str("s"))),
		// record keys that differ from the escape keys only in letter case, holding records shaped like an escape's payload
		ir.Rec(ir.F("__Entity", ir.Rec(ir.F("id", ir.Str("alice")), ir.F("type", ir.Str("User"))))), ir.Rec(ir.F("__ENTITY", ir.Rec(ir.F("id", ir.Str("a")), ir.F("type", ir.Str("T0")))), ir.F("x", ir.Long(1))),
		ir.Rec(ir.F("__Extn", ir.Rec(ir.F("arg", ir.Str("1.5")), ir.F("fn", ir.Str("decimal"))))), ir.Rec(ir.F("__EXTN", ir.Rec(ir.F("arg", ir.Str("10.0.0.1")), ir.F("fn", ir.Str("ip"))))),
		ir.Set(ir.Rec(ir.F("__entitY", ir.Rec(ir.F("id", ir.Str("a")), ir.F("type", ir.Str("T0")))))),
		ir.Rec(ir.F("e", ir.Ent("T0", "a")), ir.F("d", ir.Decimal(-15000)), ir.F("s", ir.Set(ir.IP([]byte{10, 0, 0, 1}, 24)))), ir.Decimal(0), ir.Decimal(-9223372036854775808), ir.Decimal(9223372036854775807), ir.Decimal(12345),
		ir.IP([]byte{0, 0, 0, 0}, 0), ir.IP([]byte{255, 255, 255, 255}, 32), ir.IP(make([]byte, 16), 128), ir.IP([]byte{0x20, 1, 0xd, 0xb8, 0, 0, 0, 0, 0, 0, 0, 0, 0, 0, 0, 1}, 64),
		ir.Datetime(0), ir.Datetime(-1), ir.Datetime(253402300800000), ir.Datetime(9223372036854775807), ir.Duration(0), ir.Duration(-9223372036854775808), ir.Duration(9223372036854775807), ir.Duration(90061001)}
	for _, v := range vals {
		count++
		if mine(count) {
			variants(condPolicy(ir.Bin(ir.OpEq, ir.Lit(v), ir.SetE(ir.Lit(v)))), worlds, uint64(count), "shape-table", fail)
		}
	}
	W := ir.PatElem{Wild: true}
	P := func(s string) ir.PatElem { return ir.PatElem{Lit: s} }
	pats := [][]ir.PatElem{{W}, {W, W}, {P("")}, {P("a")}, {P("*")}, {P("a"), W}, {W, P("a")}, {P(""), W}, {W, P("")}, {P("a"), P("b")}, {P("a"), W, W, P("b")}, {P("\\*"), W, P("\"")}, {P("é\n"), W, P("\U0001F600")}, {P(""), W, P(""), W, P("")}}
	if !ev.KnownOpen("C09", "like-empty-pattern") {
		pats = append(pats, []ir.PatElem{})
	}
	for _, pat := range pats {
		for _, subj := range []string{"", "a", "ab", "*", "b"} {
			count++
			if mine(count) {
				variants(condPolicy(ir.Like(ir.Lit(ir.Str(subj)), pat)), worlds[:1], uint64(count), "shape-table", fail)
			}
		}
	}
	e1, e2 := ir.Ent("T0", "a"), ir.Ent("NS::T2", "b \"c")
	pr := []ir.Scope{ir.ScopeAll(), ir.ScopeEq(e1), ir.ScopeIn(e2), ir.ScopeIs("NS::T2"), ir.ScopeIsIn("T0", e2)}
	a1, a2 := ir.Ent("Action", "view"), ir.Ent("NS::Action", "")
	ac := []ir.Scope{ir.ScopeAll(), ir.ScopeEq(a1), ir.ScopeIn(a2), ir.ScopeInSet(nil), ir.ScopeInSet([]ir.Value{a1}), ir.ScopeInSet([]ir.Value{a1, a2, a1})}
	for pi, ps := range pr {
		for ai, as := range ac {
			for ri, rs := range pr {
				count++
				if !mine(count) {
					continue
				}
				p := ir.NewPolicy((pi+ai+ri)%2 == 0)
				p.Principal, p.Action, p.Resource = ps, as, rs
				for k := 0; k < (pi+ai)%3; k++ {
					p.Conds = append(p.Conds, ir.Cond{When: (k+ri)%2 == 0, Body: ir.Bin(ir.OpEq, ctx, ir.Lit(ir.Long(int64(k))))})
				}
				for k := 0; k < (ai+ri)%4; k++ {
					p.Annotations = append(p.Annotations, ir.Annotation{K: gen.AnnotationKeys[(pi+3*k)%len(gen.AnnotationKeys)] + fmt.Sprint(k), V: fmt.Sprint("v\n", k)})
				}
				variants(p, worlds, uint64(count), "shape-table", fail)
			}
		}
	}
	if ev.First() {
		ev.R.Space("JSON node shapes: (parent, position, child) triples, all 22 extension functions, literal value kinds, pattern forms, scope forms x annotations x condition kinds; each with canonical, permuted and call-style own renderings", count)
	}
}

// TestScopeTwins: scopes naming entity uids that coincide when type and id are glued together without quoting
// (`Org::Team::"alice"` / `Org::"Team::alice"`, `A::"bc"` / `Ab::"c"`), in one policy and across the policies decoded
// one after the other by this process: anything keyed by such a concatenation hands one uid out for the other.
func TestScopeTwins(t *testing.T) {
	if !ev.First() {
		return
	}
	fail := tableFail(t)
	worlds := gen.FixedWorlds()[:2]
	pairs := [][2]ir.Value{
		{ir.Ent("Org::Team", "alice"), ir.Ent("Org", "Team::alice")},
		{ir.Ent("A", "bc"), ir.Ent("Ab", "c")},
		{ir.Ent("T::U", ""), ir.Ent("T", "U::")},
		{ir.Ent("Action", "a::b"), ir.Ent("Action::a", "b")},
	}
	count := 0
	for _, pr := range pairs {
		for _, ord := range [][2]int{{0, 1}, {1, 0}} {
			a, b := pr[ord[0]], pr[ord[1]]
			forms := []func(p *ir.Policy){
				func(p *ir.Policy) { p.Principal, p.Resource = ir.ScopeEq(a), ir.ScopeEq(b) },
				func(p *ir.Policy) { p.Principal, p.Resource = ir.ScopeIn(a), ir.ScopeIn(b) },
				func(p *ir.Policy) { p.Principal, p.Resource = ir.ScopeIsIn("T0", a), ir.ScopeIsIn("T0", b) },
				func(p *ir.Policy) { p.Action = ir.ScopeInSet([]ir.Value{a, b}) },
				func(p *ir.Policy) { p.Action, p.Resource = ir.ScopeEq(a), ir.ScopeEq(b) },
				func(p *ir.Policy) { p.Principal = ir.ScopeEq(a) },
				func(p *ir.Policy) { p.Principal = ir.ScopeEq(b) },
			}
			for _, f := range forms {
				p := ir.NewPolicy(true)
				f(p)
				count++
				run(&Case{Policy: p, Worlds: worlds}, "scope-twins", fail)
			}
		}
	}
	ev.R.Space("scope forms over uid pairs whose unquoted concatenations coincide, both orders", count)
}

// TestSetTable: policy sets with 0..8 ids including "" and non-ASCII ids.
func TestSetTable(t *testing.T) {
	if !ev.First() {
		return
	}
	fail := tableFail(t)
	mk := func(ids ...string) *SetCase {
		c := &SetCase{IDs: ids}
		for i := range ids {
			p := ir.NewPolicy(i%2 == 0)
			p.Annotations = []ir.Annotation{{K: "n", V: fmt.Sprint(i)}}
			p.Conds = []ir.Cond{{When: i%3 != 0, Body: ir.Bin(ir.OpEq, ir.Var("context"), ir.Lit(ir.Long(int64(i))))}}
			c.Policies = append(c.Policies, p)
		}
		return c
	}
	cases := []*SetCase{mk(), mk(""), mk("a"), mk("", " ", "a", "A"), mk("policy0", "policy1", "policy10", "policy2"), mk("é", "日本", "\U0001F600", "\u0000", "\"", "\\", "\n", "<&>"), mk("a", "a"), mk("x", "y", "x", "z", "y"), mk("é", "é")}
	for _, c := range cases {
		runSet(c, "set-table", fail)
	}
	ev.R.Space("hand-made policy sets (0..8 ids, empty, non-ASCII, control, duplicate ids)", len(cases))
}

// ---------------------------------------------------------------------------------------------
// random

func valOpts() gen.ValOpts { return gen.ValOpts{Keys: gen.KeysMixed, MappedIP: true} }

var setIDs = []string{"", " ", "a", "b", "policy0", "policy1", "policy10", "é", "日本", "\U0001F600", "\n", "\"", "A"}

func TestRandom(t *testing.T) {
	ev.SetChecks(ev.Scale(9000, 900000))
	maxDepth := ev.Pick(4, 6)
	ev.Check(t, func(rt *rapid.T) {
		o := gen.TreeOpts{Keys: gen.KeysMixed}
		if gen.Chance(rt, 40, "normal") {
			o.ParserNormal = true
		}
		worlds := gen.CodecWorlds(rt, 4, valOpts())
		p := gen.HostilePolicy(rt, o, 3, func() *ir.Expr {
			return gen.CodecBody(rt, &worlds[0], rapid.IntRange(1, maxDepth).Draw(rt, "depth"), o)
		})
		c := &Case{Policy: p, Worlds: worlds, AsCall: gen.Chance(rt, 30, "ascall")}
		if gen.Chance(rt, 60, "jsonnoise") {
			c.MyJSON = string(render.PolicyJSON(p, render.JSONOpts{ExtLitAsCall: c.AsCall, Next: func(n int) int { return rapid.IntRange(0, n-1).Draw(rt, "j") }}))
		}
		if !run(c, "random", func(string, string) {}) {
			rt.Fatalf("C09/random: the JSON codec changes a policy, disagrees with the text codec, or the encodings authorize differently")
		}
	})
}

func TestRandomSets(t *testing.T) {
	ev.SetChecks(ev.Scale(1200, 120000))
	ev.Check(t, func(rt *rapid.T) {
		o := gen.TreeOpts{Keys: gen.KeysMixed}
		n := rapid.IntRange(0, 8).Draw(rt, "nids")
		w := gen.GenWorld(rt, 3, valOpts())
		c := &SetCase{}
		for i := 0; i < n; i++ {
			id := gen.Pick(rt, setIDs, "id")
			if gen.Chance(rt, 25, "hostileid") {
				id = gen.HostileString(rt, o)
			}
			c.IDs = append(c.IDs, id)
			c.Policies = append(c.Policies, gen.HostilePolicy(rt, o, 2, func() *ir.Expr { return gen.CodecBody(rt, &w, rapid.IntRange(0, 3).Draw(rt, "depth"), o) }))
		}
		if !runSet(c, "random-sets", func(string, string) {}) {
			rt.Fatalf("C09/sets: the JSON form of a policy set does not preserve the id -> policy map")
		}
	})
}

// ---------------------------------------------------------------------------------------------

func TestKnown(t *testing.T) {
	if !ev.First() {
		return
	}
	worlds := gen.FixedWorlds()[:1]
	if ev.KnownOpen("C09", "like-empty-pattern") {
		c := &Case{Policy: condPolicy(ir.Like(ir.Lit(ir.Str("")), nil)), Worlds: worlds}
		if sub, msg := check(c); sub != "" {
			ev.R.KnownFinding("like-empty-pattern", "`\"\" like \"\"` built with the empty pattern: "+firstLine(msg))
		}
	}
	if ev.KnownOpen("C09", "negate-literal-fold") {
		c := &Case{Policy: condPolicy(ir.Un(ir.OpNeg, ir.Lit(ir.Long(1)))), Worlds: worlds}
		if sub, msg := check(c); sub != "" {
			ev.R.KnownFinding("negate-literal-fold", "Negate(Long(1)): "+strings.ReplaceAll(msg, "\n", " | "))
		}
	}
	if ev.KnownOpen("C09", "ipv4-mapped-string") {
		c := &Case{Policy: condPolicy(ir.Ext("isIpv6", ir.Lit(gen.IPMappedPool[2]))), Worlds: worlds}
		if sub, msg := check(c); sub != "" {
			ev.R.KnownFinding("ipv4-mapped-string", "literal ip value ::ffff:102:304: "+firstLine(msg))
		}
	}
}

func firstLine(s string) string {
	if i := strings.IndexByte(s, '\n'); i >= 0 {
		return s[:i]
	}
	return s
}

func TestReplay(t *testing.T) {
	rf, ok, err := ev.LoadReplay()
	if !ok {
		t.Skip("no replay requested")
	}
	if err != nil {
		t.Fatal(err)
	}
	if ev.ReplayFuzz(t, rf, fuzzProps, fuzzRaw) {
		return
	}
	var sub, msg string
	var cs any
	if strings.HasPrefix(rf.Sub, "set/") || strings.HasPrefix(rf.Sub, "myset/") {
		var c SetCase
		if err := json.Unmarshal(rf.Case, &c); err != nil {
			t.Fatalf("cannot decode replay case: %v", err)
		}
		sub, msg = checkSet(&c)
		cs = &c
	} else {
		var c Case
		if err := json.Unmarshal(rf.Case, &c); err != nil || c.Policy == nil {
			t.Fatalf("cannot decode replay case: %v", err)
		}
		if len(c.Worlds) == 0 {
			c.Worlds = gen.FixedWorlds()[:4]
		}
		sub, msg = check(&c)
		cs = &c
	}
	if sub != "" {
		ev.R.Violation(sub, cs, msg)
		t.Fatalf("C09 replay %s: %s", sub, msg)
	}
}
