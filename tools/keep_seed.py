#!/usr/bin/env python3
"""keep_seed.py <ID> <mN> <demo_dir> <caught_by_csv> [note]  - stores a verified seeded change under /verif/seeded/<ID>-<mN>/"""
import json, os, shutil, sys
pid, m, demo_dir, caught = sys.argv[1:5]
note = sys.argv[5] if len(sys.argv) > 5 else ""
rnd = os.environ.get('SEED_ROUND', '')
src = (os.environ.get('SEEDOUT', '/tmp/seed')) + '/%s.out' % pid
tag = ('r%s' % rnd if rnd else '') + m
dst = '/verif/seeded/%s-%s' % (pid, tag)
os.makedirs(dst, exist_ok=True)
shutil.copy(os.path.join(src, m + '.diff'), os.path.join(dst, 'patch.diff'))
shutil.copy(os.path.join(src, m + '_demo_test.go'), os.path.join(dst, 'demo_test.go.txt'))
md = ''
if os.path.exists(os.path.join(src, m + '.md')):
    md = open(os.path.join(src, m + '.md')).read()
    shutil.copy(os.path.join(src, m + '.md'), os.path.join(dst, 'author_notes.md'))
meta = {
    "id": "%s-%s" % (pid, tag),
    "property": pid,
    "written_by": "independent sub-agent given only the property text and a scratch worktree of /repo (HEAD at the time: see patch base)",
    "needs_to_manifest": md.strip().split('\n\n')[0][:1500] if md else "",
    "demonstration": {"file": "demo_test.go.txt (rename to *_test.go)", "place_in_dir_relative_to_repo": demo_dir,
                      "run": "GOFLAGS=-mod=mod GOPROXY=off GOSUMDB=off GOTOOLCHAIN=local go test -vet=off -count=1 ./%s/" % demo_dir},
    "verified_by_lead": ["demo passes on the clean worktree", "demo fails with patch.diff applied", "cedar-go's own suite (go test ./...) passes with patch.diff applied"],
    "detected_by_quick": [c for c in caught.split(',') if c and c != '-'],
    "note": note,
}
json.dump(meta, open(os.path.join(dst, 'meta.json'), 'w'), indent=1)
print('kept', dst)
