#!/bin/bash
# seed_round.sh <outdir> <props...> : verifies every mutant of a seeding round (outdir/<PROP>.out/mN.*) in its scratch worktree and runs
# the property's own quick check against it. Demo directory = first path-like token containing "demo" in the demo file's header.
out=$1; shift
cd /verif
export SEEDOUT=$out
for p in "$@"; do
  for m in m1 m2; do
    f=$out/$p.out/${m}_demo_test.go
    [ -f $f ] && [ -f $out/$p.out/$m.diff ] || { echo "$p $m MISSING"; continue; }
    dir=$(head -25 $f | grep -oE "[A-Za-z0-9_./-]*demo[A-Za-z0-9_]*/" | sed "s|^${WTROOT:-/tmp/seed}/$p/||; s|^\./||" | grep -v "^/" | head -1)
    dir=${dir%/}
    echo "== $p $m dir=$dir"
    tools/verify_seed.sh $p $m $dir 2>&1 | grep -E "VERIFIED|REJECTED|want"
    tools/try_seed_scratch.sh $p $m quick $p 2>&1 | grep -v "^  sub-check"
  done
done
