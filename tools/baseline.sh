#!/bin/bash
# Runs cedar-go's own suite on /repo's working tree (guard off) and prints a summary; restores go.sum afterwards.
cd /repo || exit 2
export GOFLAGS=-mod=mod GOPROXY=off GOSUMDB=off GOTOOLCHAIN=local
go test -mod=mod -vet=off -count=1 ./... > /tmp/baseline.log 2>&1
rc=$?
git -C /repo checkout -- go.sum 2>/dev/null
grep -v '^ok\|no test files' /tmp/baseline.log | head -60
echo "baseline rc=$rc"
exit $rc
