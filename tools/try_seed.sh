#!/bin/bash
# try_seed.sh <patch> <tier> <props...> : applies a patch to /repo, runs the listed checks, and always reverts.
patch=$1; tier=$2; shift 2
cd /repo && git status --short | grep -v go.sum | grep . && { echo "/repo not clean"; exit 3; }
git -C /repo apply $patch || exit 3
trap 'git -C /repo checkout -q -- .' EXIT
cd /verif
for p in "$@"; do
  ./check $p $tier > /tmp/try_$p.out 2>/tmp/try_$p.err; rc=$?
  echo "$p $tier rc=$rc $(grep -c VIOLATION /tmp/try_$p.out) violation line(s)"
  grep -h VIOLATION /tmp/try_$p.out | head -3
  [ $rc -eq 2 ] && tail -5 /tmp/try_$p.err
done
