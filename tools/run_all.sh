#!/bin/bash
# run_all.sh <tier> <seed> [props...] : runs checks sequentially, prints one line per property
tier=$1; seed=$2; shift 2
props=${@:-C01 C02 C03 C04 C05 C06 C07 C08 C09 C10 C11 C12 C13 C14 C15 C16 C17 C18 C19 C20}
cd "$(dirname "$0")/.."
for p in $props; do
  s=$(date +%s)
  VERIF_SEED=$seed ./check $p $tier > /tmp/run_${tier}_${seed}_$p.out 2> /tmp/run_${tier}_${seed}_$p.err
  rc=$?
  echo "$p $tier seed=$seed rc=$rc $(( $(date +%s) - s ))s $(grep -c VIOLATION /tmp/run_${tier}_${seed}_$p.out) violations; $(grep -c KNOWN-FINDING /tmp/run_${tier}_${seed}_$p.out) known"
  grep -h "VIOLATION\|BROKEN" /tmp/run_${tier}_${seed}_$p.out /tmp/run_${tier}_${seed}_$p.err | cut -c1-300
done
