#!/bin/bash
# try_seed_scratch.sh <ID> <mN> <tier> <props...> : runs the listed checks against the seed worktree /tmp/seed/<ID> with
# patch <mN> applied, using a scratch copy of /verif whose harness points at that worktree. /repo is not touched.
id=$1; m=$2; tier=$3; shift 3
wt=${WTROOT:-/tmp/seed}/$id; v=/tmp/vcopy-$(basename ${WTROOT:-seed})-$id-$m
rm -rf $v; mkdir -p $v
rsync -a --exclude .git --exclude .work --exclude evidence --exclude replays --exclude seeded /verif/ $v/
sed -i "s|=> /repo|=> $wt|" $v/harness/go.mod
git -C $wt checkout -q -- . ; git -C $wt clean -fdq
git -C $wt apply ${SEEDOUT:-/tmp/seed}/$id.out/$m.diff || { echo "patch does not apply"; exit 3; }
cd $v
for p in "$@"; do
  s=$(date +%s)
  ./check $p $tier > $v/try_$p.out 2> $v/try_$p.err; rc=$?
  echo "$id/$m vs $p $tier: rc=$rc $(grep -c VIOLATION $v/try_$p.out) violation line(s) $(( $(date +%s) - s ))s"
  grep -h VIOLATION $v/try_$p.out | sed "s|$v|.|" | head -4
  [ $rc -eq 2 ] && tail -8 $v/try_$p.err
  [ $rc -eq 1 ] && grep -h "sub-check" $v/try_$p.err | cut -c1-400 | head -3
done
git -C $wt checkout -q -- . ; git -C $wt clean -fdq
mkdir -p ${SEEDOUT:-/tmp/seed}/$id.out/replays-$m && cp -r $v/replays/* ${SEEDOUT:-/tmp/seed}/$id.out/replays-$m/ 2>/dev/null
rm -rf $v
