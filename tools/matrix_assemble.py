#!/usr/bin/env python3
"""matrix_assemble.py : writes seeded/MATRIX.md from the result files of tools/seed_matrix.sh (/tmp/seedmatrix/*.txt), plus retests
given as extra 'id check rc=N k note...' lines in /tmp/seedmatrix/retests (patches re-run after a check was strengthened)."""
import glob, json, os, subprocess
rows = {}
for f in sorted(glob.glob('/tmp/seedmatrix/C*.txt')):
    for l in open(f):
        p = l.split()
        if len(p) >= 4:
            rows[(p[0], p[1])] = (p[2], p[3], '')
if os.path.exists('/tmp/seedmatrix/retests'):
    for l in open('/tmp/seedmatrix/retests'):
        p = l.split(None, 4)
        if len(p) >= 4:
            rows[(p[0], p[1])] = (p[2], p[3], p[4].strip() if len(p) > 4 else 'retest')
ids = sorted(d for d in os.listdir('/verif/seeded') if os.path.exists('/verif/seeded/%s/meta.json' % d))
head = subprocess.run(['git', '-C', '/verif', 'rev-parse', '--short', 'HEAD'], capture_output=True, text=True).stdout.strip()
out = ['# Seeded changes re-run against the checks', '',
       'Produced by tools/seed_matrix.sh + tools/matrix_assemble.py (sixth session, /verif at %s or a few commits before it, /repo at d6a2018): every patch under' % head,
       'seeded/ applied to a scratch worktree of /repo, the quick checks named in its meta.json run against it.',
       'rc=1 with >= 1 VIOLATION line = detected; rc=0 = not detected; "not re-run" = the run was stopped for time before this patch.', '',
       '| seeded change | check | exit | VIOLATION lines | note |', '|---|---|---|---|---|']
det = notdet = missing = 0
for i in ids:
    m = json.load(open('/verif/seeded/%s/meta.json' % i))
    checks = m['detected_by_quick'] or [m['property']]
    any_det = False
    for c in checks:
        r = rows.get((i, c))
        if r is None:
            out.append('| %s | %s | not re-run | | |' % (i, c)); missing += 1
        else:
            note = r[2]
            if m.get('neutralised_by_fix'):
                note = 'neutralised by fix ' + m['neutralised_by_fix'] + ' (the patch no longer breaks the property)'
            elif not m['detected_by_quick']:
                note = 'deliberately not asserted (' + m.get('not_asserted_reason', 'unmarshal into a non-empty receiver') + ')'
            out.append('| %s | %s | %s | %s | %s |' % (i, c, r[0], r[1], note))
            any_det = any_det or r[0] == 'rc=1'
    if any_det: det += 1
    elif all(rows.get((i, c)) is not None for c in checks): notdet += 1
out += ['', '%d changes detected by at least one listed check, %d not detected, %d check runs not repeated in this session.' % (det, notdet, missing)]
open('/verif/seeded/MATRIX.md', 'w').write('\n'.join(out) + '\n')
print(det, notdet, missing)
