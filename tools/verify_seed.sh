#!/bin/bash
# verify_seed.sh <ID> <mN> : verifies a seeded change in its scratch worktree /tmp/seed/<ID>:
#   demo passes on the clean tree, fails with the patch; cedar-go's own suite passes with the patch.
# The demo's target directory is read from its header comment ("dir: <relative dir>") or given as $3.
id=$1; m=$2
wt=${WTROOT:-/tmp/seed}/$id; out=${SEEDOUT:-/tmp/seed}/$id.out
export GOFLAGS=-mod=mod GOPROXY=off GOSUMDB=off GOTOOLCHAIN=local
demo=$out/${m}_demo_test.go
dir=${3:-$(grep -m1 -oiE '(dir|directory|place[d]? (it )?(in|at|under))[^A-Za-z0-9_./]*[`"]?[A-Za-z0-9_./-]+' $demo | grep -oE '[A-Za-z0-9_./-]+$')}
[ -z "$dir" ] && dir=demo
dir=${dir#./}; dir=${dir%/}
echo "== $id $m demo dir: $dir"
git -C $wt checkout -q -- . ; git -C $wt clean -fdq
mkdir -p $wt/$dir && cp $demo $wt/$dir/${m}_demo_test.go
(cd $wt/$dir && go test -vet=off -count=1 -run . . > /tmp/vs_clean_$id.log 2>&1); rc_clean=$?
git -C $wt apply $out/$m.diff || { echo "patch does not apply"; exit 3; }
(cd $wt/$dir && go test -vet=off -count=1 -run . . > /tmp/vs_mut_$id.log 2>&1); rc_mut=$?
rm -f $wt/$dir/${m}_demo_test.go; rmdir $wt/$dir 2>/dev/null
(cd $wt && go test -mod=mod -vet=off -count=1 -timeout 120m ./... > /tmp/vs_suite_$id.log 2>&1); rc_suite=$?
git -C $wt checkout -q -- . ; git -C $wt clean -fdq
echo "demo clean rc=$rc_clean (want 0), demo mutated rc=$rc_mut (want !=0), suite with mutant rc=$rc_suite (want 0)"
[ $rc_clean -ne 0 ] && tail -15 /tmp/vs_clean_$id.log
[ $rc_mut -eq 0 ] && tail -5 /tmp/vs_mut_$id.log
[ $rc_suite -ne 0 ] && grep -v "^ok\|no test files" /tmp/vs_suite_$id.log | head -20
[ $rc_clean -eq 0 ] && [ $rc_mut -ne 0 ] && [ $rc_suite -eq 0 ] && echo "VERIFIED $id $m" || echo "REJECTED $id $m"
