#!/bin/bash
# seed_matrix.sh [props...] : re-runs, for every kept seeded change, the quick checks listed in its meta.json against a scratch
# worktree with the patch applied, and writes seeded/MATRIX.md. Needs the worktrees /tmp/seed/<PROP> (git worktree add --detach).
cd /verif
props=${@:-C01 C02 C03 C04 C05 C06 C07 C08 C09 C10 C11 C12 C13 C14 C15 C16 C17 C18 C19 C20}
mkdir -p /tmp/seedmatrix
one_prop() {
  p=$1
  wt=/tmp/seed/$p
  [ -d $wt ] || git -C /repo worktree add -q --detach $wt HEAD
  for d in /verif/seeded/$p-*; do
    id=$(basename $d)
    checks=$(python3 -c "import json;m=json.load(open('$d/meta.json'));print(' '.join(m['detected_by_quick']) or m['property'])")
    v=/tmp/vcopy-$id; rm -rf $v; mkdir -p $v
    rsync -a --exclude .git --exclude .work --exclude evidence --exclude replays --exclude seeded /verif/ $v/
    sed -i "s|=> /repo|=> $wt|" $v/harness/go.mod
    git -C $wt checkout -q -- . ; git -C $wt clean -fdq
    git -C $wt apply $d/patch.diff || { echo "$id PATCH-FAILS" >> /tmp/seedmatrix/$p.txt; continue; }
    for c in $checks; do
      (cd $v && ./check $c quick > $v/out.txt 2> $v/err.txt); rc=$?
      echo "$id $c rc=$rc $(grep -c VIOLATION $v/out.txt)" >> /tmp/seedmatrix/$p.txt
    done
    git -C $wt checkout -q -- . ; git -C $wt clean -fdq
    rm -rf $v
  done
}
for p in $props; do rm -f /tmp/seedmatrix/$p.txt; done
i=0
for p in $props; do
  one_prop $p &
  i=$((i+1))
  if [ $((i % ${PAR:-4})) -eq 0 ]; then wait; fi
done
wait
{
  echo "# Seeded changes re-run against the checks as committed"
  echo
  echo "Produced by tools/seed_matrix.sh: every patch under seeded/ applied to a scratch worktree of /repo, the quick checks named in its meta.json run against it."
  echo "rc=1 with >= 1 VIOLATION line = detected; rc=0 = not detected."
  echo
  echo "| seeded change | check | exit | VIOLATION lines |"
  echo "|---|---|---|---|"
  cat /tmp/seedmatrix/*.txt | sort | awk '{print "| " $1 " | " $2 " | " $3 " | " $4 " |"}'
} > /verif/seeded/MATRIX.md
grep -c "rc=1" /verif/seeded/MATRIX.md; grep "rc=0\|rc=2\|PATCH" /verif/seeded/MATRIX.md
