#!/usr/bin/env python3
"""mark_fixed.py PROPERTY KEY COMMIT [WHAT]  - flips an open entry to fixed (or appends a fixed entry) in known_findings.jsonl"""
import json, sys, fcntl
prop, key, commit = sys.argv[1:4]
what = sys.argv[4] if len(sys.argv) > 4 else None
path = '/verif/known_findings.jsonl'
with open(path, 'r+') as f:
    fcntl.flock(f, fcntl.LOCK_EX)
    lines = [l for l in f.read().split('\n') if l.strip()]
    out, found = [], False
    for l in lines:
        d = json.loads(l)
        if d['property'] == prop and d['key'] == key:
            found = True
            d['status'] = 'fixed'
            d['commit'] = commit
            if what:
                d['what'] = what
            d['record'] = 'fixed: property=%s %s %s' % (prop, commit, d.get('what', ''))
        out.append(json.dumps(d, ensure_ascii=False))
    if not found:
        d = {'status': 'fixed', 'property': prop, 'key': key, 'commit': commit, 'matches': '', 'what': what or ''}
        d['record'] = 'fixed: property=%s %s %s' % (prop, commit, d['what'])
        out.append(json.dumps(d, ensure_ascii=False))
    f.seek(0); f.truncate(); f.write('\n'.join(out) + '\n')
print('ok', prop, key, 'found' if found else 'appended')
