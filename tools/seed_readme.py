#!/usr/bin/env python3
"""Regenerates /verif/seeded/README.md from the meta.json files."""
import json, glob, os
rows = []
for f in sorted(glob.glob('/verif/seeded/*/meta.json')):
    rows.append(json.load(open(f)))
out = ["# Seeded changes: independently written breakages of cedar-go and the checks that catch them", "",
       "Each directory holds `patch.diff` (apply with `git -C /repo apply`, undo with `git -C /repo checkout -- .`), the author's",
       "demonstration (`demo_test.go.txt`: fails with the patch, passes without; placement and command in `meta.json`), the author's notes and",
       "`meta.json`. Every change compiles and passes cedar-go's own test suite. They were written by sub-agents that saw only the property text",
       "and a scratch worktree of /repo, never /verif. \"Detected by\" lists the quick-tier checks that exit 1 with the patch applied",
       "(verified by the lead with `tools/try_seed_scratch.sh`, which runs the checks against a worktree with the patch applied).", "",
       "| id | property | detected by (quick) | note |", "|---|---|---|---|"]
for r in rows:
    det = ', '.join(r.get('detected_by_quick') or []) or '**not detected**'
    out.append("| %s | %s | %s | %s |" % (r['id'], r['property'], det, (r.get('note') or '').replace('|', '/')))
n = len(rows); d = sum(1 for r in rows if r.get('detected_by_quick'))
out += ["", "%d of %d seeded changes are detected by the quick tier." % (d, n), ""]
open('/verif/seeded/README.md', 'w').write('\n'.join(out))
print(d, 'of', n)
